"""C08 - translation is invariant under wire format, bound names, metadata position and fusion.

For every accepted program of the grammar up to an operator budget, the complete set of variants (qastle round trip,
every capture-free assignment of lambda parameter names from a pool, MetaData attached at each chain position, each
adjacent Select.Select / Where.Where pair fused) is translated by the real translator; all rendered files must be equal
to the base program's up to the numbering of generated names (or the same exception must be raised).
"""
import ast
import itertools
import sys
from collections import Counter

from mc.core import findings as F
from mc.core import par
from mc.core.evidence import Report, seed
from mc.core.pipeline import wrap_metadata
from mc.core.translate import parse_query, translate_ast
from mc.lang import qgen, variants
from mc.lang.norm import digest_files, first_diff, normalise_text

PROP = "C08"


def outcome(pkg):
    if pkg.ok:
        return ("pkg", digest_files(pkg.files))
    return ("exc", pkg.exc_type, normalise_text(pkg.exc_msg or ""))


_first_msg = __import__("re").compile(r'runtime_error\("First\(\) called on an empty sequence \(.*\)"\)')


def _mask_first_message(files):
    return {n: _first_msg.sub('runtime_error("First() called on an empty sequence (...)")', t) for n, t in files.items()}


def _line_multiset(files):
    import re
    from mc.lang.norm import normalise_files
    out = []
    for n, t in sorted(normalise_files(_mask_first_message(files)).items()):
        out += sorted(re.sub(r"#\d+", "#", l.strip()) for l in t.split("\n") if l.strip())
    return out


def tr(text, backend, mds):
    a = wrap_metadata(parse_query(text), mds)
    return translate_ast(a, backend, query_text=text)


def tr_qastle(text, backend, mds):
    import qastle
    a = wrap_metadata(parse_query(text), mds)
    t = qastle.python_ast_to_text_ast(a)
    b = qastle.text_ast_to_python_ast(t).body[0].value
    return translate_ast(b, backend, query_text=text)


def worker(args):
    backend, texts, pool, mds = args[:4]
    only_qastle = len(args) > 4 and args[4] == "qastle-only"
    stats = Counter()
    bad = []
    for text in texts:
        base = tr(text, backend, mds)
        ob = outcome(base)
        stats["programs"] += 1
        stats["accepted" if base.ok else "refused"] += 1
        tree = ast.parse(text, mode="eval").body
        vs = []
        # (a) qastle
        try:
            q = tr_qastle(text, backend, mds)
            vs.append(("qastle", text, q))
        except Exception as e:  # qastle itself refusing is reported as a variant failure
            vs.append(("qastle", text, None))
            stats["qastle_errors"] += 1
        # (b) alpha
        for vt, info in ([] if only_qastle else variants.alpha_variants(tree, pool)):
            if vt == text:
                continue
            vs.append(("alpha:" + ",".join(info["names"]), vt, tr(vt, backend, mds)))
        # (c) metadata placement (the declarations are carried at another position)
        for vt, info in ([] if only_qastle else variants.metadata_variants(tree, list(mds))):
            a = ast.fix_missing_locations(parse_query(vt))
            vs.append((f"md@{info['md_position']}", vt, translate_ast(a, backend, query_text=vt)))
        # (d) fusion
        for vt, info in ([] if only_qastle else variants.fusion_variants(tree)):
            vs.append((f"fused-{info['fused']}", vt, tr(vt, backend, mds)))
        # (e) the same Python ast with every group of equal sub-expressions shared as ONE node object
        if not only_qastle:
            dag, nshared = variants.share_equal_subtrees(wrap_metadata(parse_query(text), mds))
            if nshared:
                vs.append(("shared-nodes", text, translate_ast(dag, backend, query_text=text)))
        for kind, vt, pkg in vs:
            names = []
            if kind.startswith("alpha:"):
                names = kind.split(":", 1)[1].split(",")
                kind = "alpha"
            stats["variants"] += 1
            stats["v_" + kind.split("@")[0].split("-")[0]] += 1
            if pkg is None:
                bad.append({"names": [], "got_kind": "qastle-error", "base_kind": ob[0], "kind": kind, "query": text, "variant": vt, "backend": backend, "base": str(ob), "got": "qastle round trip failed", "diff": ""})
                continue
            ov = outcome(pkg)
            if pkg.ok and base.ok and pkg.files != base.files:
                stats["raw_text_differs"] += 1
            if kind == "qastle" and ov[0] == "exc" and ob[0] == "exc":
                # refused on both wires (e.g. 1e999: a float constant on one wire, the bare name `inf` on the other): the
                # property is about the package, and there is none either way
                stats["refused_on_both_wires"] += 1
                continue
            if ov != ob:
                d = first_diff(pkg.files, base.files) if (pkg.ok and base.ok) else ""
                only_msg = False
                reord = False
                if pkg.ok and base.ok:
                    only_msg = digest_files(_mask_first_message(pkg.files)) == digest_files(_mask_first_message(base.files))
                    if not only_msg:
                        reord = _line_multiset(pkg.files) == _line_multiset(base.files)
                bad.append({"names": names, "got_kind": ov[0], "base_kind": ob[0], "only_first_message_differs": only_msg, "same_lines_reordered": reord, "kind": kind, "query": text, "variant": vt, "backend": backend, "base": str(ob)[:200], "got": str(ov)[:200], "diff": d[:300]})
    return stats, bad


def shadow_family(backend):
    """Programs in which an inner lambda is followed, in the same enclosing lambda body, by a later use of the enclosing
    parameter - at every later-use position - so that every shadowing renaming has something to disturb."""
    a = qgen.ALPHA[backend]
    S, T = f"e.{a.primary}('A')", f"e.{a.secondary}('B')"
    inner_e = [f"{S}.Select(lambda j1: j1.pt()).Sum()", f"{S}.Where(lambda j1: j1.pt() > 1).Count()", f"{S}.SelectMany(lambda j1: j1.tags()).Count()"]
    later_e = [f"{T}.Count()", f"{S}.Count()"]
    out = []
    for i, l in itertools.product(inner_e, later_e):
        out += [f"ds.Select(lambda e: ({i} + {l}))", f"ds.Select(lambda e: ({i}, {l}))", f"ds.Select(lambda e: {{'a': {i}, 'b': {l}}})",
                f"ds.Select(lambda e: ({i} if {l} > 0 else {l}))", f"ds.Select(lambda e: ({l} if {i} > 0 else {l}))",
                f"ds.Where(lambda e: {i} > 0 and {l} > 0).Select(lambda e: {l})"]
    if backend == "atlas":
        # the jet plug-in methods record the NAME of the object they are called on
        out += [f"ds.Select(lambda e: {S}.Select(lambda j1: {T}.Where(lambda j2: j2.getAttributeFloat('w') > j1.getAttributeFloat('w')).Count()))",
                f"ds.Select(lambda e: ({S}.Select(lambda j1: j1.getAttributeFloat('w')), {T}.Select(lambda j2: j2.getAttributeFloat('w'))))",
                f"ds.Select(lambda e: {S}.Select(lambda j1: j1.parts().Select(lambda j2: j2.getAttributeFloat('w') + j1.getAttributeFloat('w')).Sum()))",
                f"ds.Select(lambda e: {S}.Where(lambda j1: j1.getAttributeFloat('w') > 1).Select(lambda j2: j2.getAttributeVectorFloat('v').Count() + j2.getAttributeFloat('w')))"]
    meth = ("{'metadata_type': 'add_cpp_function', 'name': 'vmpt2', 'include_files': [], 'arguments': [], 'code': ['double result = obj_j" + ("->" if backend == "atlas" else ".") +
            "pt() * 2;'], 'method_object': 'obj_j', 'instance_object': 'X', 'return_type': 'double'}")
    out += [f"MetaData(ds, {meth}).Select(lambda e: {S}.Select(lambda j1: {T}.Where(lambda j2: j2.vmpt2() > j1.vmpt2()).Count()))",
            f"MetaData(ds, {meth}).Select(lambda e: ({S}.Select(lambda j1: j1.vmpt2()), {T}.Select(lambda j2: j2.vmpt2())))"]
    inner_j = ["j1.tags().Select(lambda j2: j2 * 2).Sum()", "j1.parts().Where(lambda j2: j2.pt() > 0).Count()", f"{T}.Select(lambda j2: j2.pt()).Sum()",
               "j1.parts().Select(lambda j2: j2.tags().Select(lambda j3: j3).Sum()).Sum()"]
    later_j = ["j1.eta()", "j1.nTrk()"]
    for i, l in itertools.product(inner_j, later_j):
        out += [f"ds.Select(lambda e: {S}.Select(lambda j1: ({i} + {l})))", f"ds.SelectMany(lambda e: {S}).Select(lambda j1: ({i}, {l}))",
                f"ds.Select(lambda e: {S}.Select(lambda j1: ({l} if {i} > 0 else {l})))", f"ds.Select(lambda e: {S}.Where(lambda j1: {i} > 0 and {l} > 0).Count())",
                f"ds.Select(lambda e: {S}.Select(lambda j1: DeltaR({i}, {l}, {l}, {i})))"]
    return out


def md_value_family(backend):
    """Queries whose metadata carries sequence VALUES (include files, arguments, code lines, enum values, script lines)
    written as tuples and as lists: the Python wire keeps a tuple a tuple, qastle text only has lists."""
    a = qgen.ALPHA[backend]
    S = f"e.{a.primary}('A')"
    ckind = {"atlas": "add_atlas_event_collection_info", "cms_aod": "add_cms_aod_event_collection_info", "cms_miniaod": "add_cms_miniaod_event_collection_info"}[backend]
    out = []
    for mk in (tuple, list):
        fn = {"metadata_type": "add_cpp_function", "name": "vmscale", "include_files": mk(["vector", "cmath"]), "arguments": mk(["x", "y"]),
              "code": mk(["double result = x * y;"]), "return_type": "double"}
        out.append(f"MetaData(ds, {fn!r}).Select(lambda e: {S}.Select(lambda j: vmscale(j.pt(), 2)))")
        coll = {"metadata_type": ckind, "name": "Things", "include_files": mk(["pkg/a.h", "pkg/b.h"]), "container_type": "std::vector<" + a.primary_cls + ">",
                "element_type": a.primary_cls, "contains_collection": True}
        if backend == "atlas":
            coll["link_libraries"] = mk(["libA", "libB"])
        else:
            coll["element_pointer"] = False
        out.append(f"MetaData(ds, {coll!r}).Select(lambda e: e.Things('A').Select(lambda t: t.pt()))")
        inj = {"metadata_type": "inject_code", "name": "blk", "body_includes": mk(["x1.h", "x2.h"])}
        if backend == "atlas":
            inj.update({"header_includes": mk(["h1.h", "h2.h"]), "private_members": mk(["int m_a;", "int m_b;"]), "instance_initialization": mk(["m_a(0)", "m_b(1)"]),
                        "ctor_lines": mk(["m_a = 1;", "m_b = 2;"]), "initialize_lines": mk(["m_a = 3;"]), "link_libraries": mk(["libC", "libD"])})
        out.append(f"MetaData(ds, {inj!r}).Select(lambda e: {S}.Count())")
        en = {"metadata_type": "define_enum", "namespace": "NS", "name": "Color", "values": mk(["Red", "Blue"])}
        out.append(f"MetaData(ds, {en!r}).Select(lambda e: {S}.Select(lambda j: j.color(NS.Color.Blue)))")
        if backend == "atlas":
            js = {"metadata_type": "add_job_script", "name": "s1", "script": mk(["# line one", "# line two"]), "depends_on": mk([])}
            js2 = {"metadata_type": "add_job_script", "name": "s2", "script": mk(["# other"]), "depends_on": mk(["s1"])}
            out.append(f"MetaData(MetaData(ds, {js!r}), {js2!r}).Select(lambda e: {S}.Count())")
    return out


def nary_family(backend):
    "and / or chains of three and more operands, flat and parenthesised either way (qastle text always nests them)"
    a = qgen.ALPHA[backend]
    S = f"e.{a.primary}('A')"
    ops = ["j.pt() > 1", "j.eta() > 0", "j.nTrk() > 1", "j.isGood()", "j.phi() > 0"]
    out = []
    for op in ("and", "or"):
        for n in (3, 4, 5):
            flat = f" {op} ".join(ops[:n])
            left = ops[0]
            for o in ops[1:n]:
                left = f"({left} {op} {o})"
            right = ops[n - 1]
            for o in reversed(ops[:n - 1]):
                right = f"({o} {op} {right})"
            for body in (flat, left, right):
                out.append(f"ds.Select(lambda e: {S}.Where(lambda j: {body}).Count())")
                out.append(f"ds.Select(lambda e: {S}.Select(lambda j: (1 if {body} else 0)))")
    out.append(f"ds.Select(lambda e: {S}.Where(lambda j: j.pt() > 1 and (j.eta() > 0 or j.nTrk() > 1 or j.isGood()) and j.phi() > 0).Count())")
    out.append(f"ds.Where(lambda e: {S}.Count() > 0 and {S}.Count() > 1 and {S}.First().pt() > 1).Select(lambda e: {S}.Count())")
    out.append(f"ds.Where(lambda e: {S}.Count() == 0 or {S}.Count() == 1 or {S}.First().pt() > 1).Select(lambda e: {S}.Count())")
    return out


def family_programs(backend, tier):
    """Programs of the hand-enumerated families (calls with arguments at mixed loop depths, explicit Aggregate, tuples /
    lists / dictionaries carried between Selects): constructs the typed grammar has no production for.  Quick: every 97th (ATLAS) / 389th (CMS); thorough: every 7th / 29th (about 185 variants per program)."""
    from mc.lang import aggfam, argscope, mixfam, structfam
    out = []
    for fam in (argscope, mixfam, aggfam, structfam):
        qs = [q for _ctx, q in fam.queries(backend) if "vmtwice(" not in q]
        out += qs[::7 if backend == "atlas" else 29] if tier != "quick" else qs[::97 if backend == "atlas" else 389]
    return out


def main(tier="quick"):
    rep = Report(PROP, tier)
    known = F.load(PROP)
    plan = {"quick": {"atlas": 3, "cms_aod": 3, "cms_miniaod": 3}, "thorough": {"atlas": 4, "cms_aod": 4, "cms_miniaod": 4}}[tier]
    pool = ("e", "j", "x")
    work = []
    nprog = 0
    for backend, kmax in plan.items():
        g = qgen.Gen(backend)
        mds = tuple(qgen.method_metadata(qgen.ALPHA[backend]))
        texts = []
        for k in range(1, kmax + 1):
            for term in g.queries(k):
                texts.append(qgen.render(term))
        texts += shadow_family(backend)
        texts += family_programs(backend, tier)
        texts += md_value_family(backend)
        texts += nary_family(backend)
        nprog += len(texts)
        for i in range(0, len(texts), 8):
            work.append((backend, texts[i:i + 8], pool, mds))
    # every (literal, position) program of the constant-fidelity check C18 through the qastle wire: integers at the 32 / 64
    # bit edges, floats in every notation, all short strings over an alphabet with quotes, backslash, newline, non-ASCII
    from mc.checks import c18
    for backend in (("atlas",) if tier == "quick" else tuple(plan)):
        cs, md18 = c18.build_cases("quick", backend)
        lt = [c["query"] for c in cs]
        nprog += len(lt)
        for i in range(0, len(lt), 40):
            work.append((backend, lt[i:i + 40], pool, md18, "qastle-only"))
    # every program of the hand-enumerated families through the qastle wire only (their full variant sets are sampled above)
    from mc.lang import aggfam, argscope, mixfam, structfam
    for backend in (("atlas",) if tier == "quick" else tuple(plan)):
        mdsb = tuple(qgen.method_metadata(qgen.ALPHA[backend]))
        ft = [q for fam in (argscope, mixfam, aggfam, structfam) for _c, q in fam.queries(backend) if "vmtwice(" not in q]
        nprog += len(ft)
        for i in range(0, len(ft), 40):
            work.append((backend, ft[i:i + 40], pool, mdsb, "qastle-only"))
    # lambda parameters named like things the query itself DECLARES: the top-level namespace of an enum, the enum, a C++ function
    for backend in plan:
        a = qgen.ALPHA[backend]
        S = f"e.{a.primary}('A')"
        decl = ({"metadata_type": "define_enum", "namespace": "NSA.Sub", "name": "Color", "values": ["Red", "Blue"]},
                {"metadata_type": "add_method_type_info", "type_string": a.primary_cls, "method_name": "color", "return_type": "NSA::Sub::Color"},
                {"metadata_type": "add_cpp_function", "name": "vmfn", "include_files": [], "arguments": ["x"], "code": ["double result = x * 2;"], "return_type": "double"})
        texts = [f"ds.Select(lambda e: {S}.Where(lambda j: j.color() == NSA.Sub.Color.Red).Select(lambda j: j.pt()))",
                 f"ds.Select(lambda e: {S}.Where(lambda j: j.color() != NSA.Sub.Color.Blue).Count())",
                 f"ds.SelectMany(lambda e: {S}).Where(lambda j: j.color() == NSA.Sub.Color.Red).Select(lambda j: vmfn(j.pt()))",
                 f"ds.Select(lambda e: {S}.Select(lambda j: vmfn(j.pt()))).Select(lambda x: x.Count())"]
        nprog += len(texts)
        for t in texts:
            work.append((backend, [t], ("e", "NSA", "Color", "vmfn"), tuple(qgen.method_metadata(a)) + decl))
    # lambda parameters named like a documented math function the query CALLS (a parameter is never called in func_adl: the
    # call is the function, the receiver of .eta() is the parameter)
    for backend in plan:
        a = qgen.ALPHA[backend]
        S = f"e.{a.primary}('A')"
        texts = [f"ds.Select(lambda e: {S}.Select(lambda j: abs(j.eta())))",
                 f"ds.SelectMany(lambda e: {S}).Where(lambda j: sqrt(j.pt()) > 1).Select(lambda j: abs(j.eta()) + sqrt(j.pt()))",
                 f"ds.Select(lambda e: {S}.Select(lambda j: j.parts().Select(lambda p: abs(p.eta() - j.eta())).Count()))",
                 f"ds.Select(lambda e: {S}.Select(lambda j: sqrt(j.pt()))).Select(lambda x: x.Sum())"]
        nprog += len(texts)
        for t in texts:
            work.append((backend, [t], ("e", "abs", "sqrt", "j"), tuple(qgen.method_metadata(a))))
    if tier != "quick":
        # a second sweep with a pool that contains the names func_adl's own lowering uses for its lambdas (acc, v)
        g = qgen.Gen("atlas")
        mds = tuple(qgen.method_metadata(qgen.ALPHA["atlas"]))
        texts = [qgen.render(t) for k in range(1, 4) for t in g.queries(k)]
        for i in range(0, len(texts), 4):
            work.append(("atlas", texts[i:i + 4], ("e", "j", "acc", "v"), mds))
    res = par.pmap(worker, work)
    stats = Counter()
    recs = []
    for s, b in res:
        stats.update(s)
        recs += b
    recs.sort(key=lambda r: (len(r["query"]), r["query"], r["variant"]))
    seen_groups = Counter()
    for i, r in enumerate(recs):
        f = F.match(known, r)
        if f is not None:
            rep.known_finding(f["id"], f["what"], r["variant"][:120])
            continue
        key = (r["kind"].split("@")[0], r["got"][:60], r["diff"].split(":")[0])
        seen_groups[key] += 1
        if seen_groups[key] <= 5:
            rep.violation(f"{r['backend']}-{i}", f"{r['kind']} variant differs [{r['backend']}]: {r['variant']} (base {r['query']}): base={r['base'][:80]} got={r['got'][:120]} {r['diff']}", r)
    if any(v > 5 for v in seen_groups.values()):
        rep.notes.append({"violation_groups_truncated": {str(k): v for k, v in seen_groups.items() if v > 5}})
    rep.set("states", stats["programs"] + stats["variants"])
    rep.set("transitions", stats["variants"])
    rep.set("traces_validated_against_impl", stats["variants"])
    rep.set("counters", dict(stats))
    rep.set("bounds", {"operator_budget": plan, "name_pool": list(pool)})
    rep.sample({"base": "ds.Select(lambda e: e.Jets('A').Select(lambda j1: j1.pt()))", "alpha_variant": "ds.Select(lambda e: e.Jets('A').Select(lambda e: e.pt()))"})
    rep.assumptions += ["variants are generated by AST rewriting whose binding structure is verified to be unchanged (capture-free by construction check)",
                        "packages are compared after renumbering generated names (70dddd suffixes, arg_N)"]
    return rep.finish(require={"traces_validated_against_impl": 1000, })


if __name__ == "__main__":
    sys.exit(main(sys.argv[1] if len(sys.argv) > 1 else "quick"))
