"""C16 - runner.sh honours its flags and never reports success after a failed step.

For each of the three rendered scripts: every invocation of a flag alphabet, after every history of earlier
invocations (build-once/run-many, run without build, ...), with every single fault: the fault-free run of a history
records the N external commands (and sourced setup files) of the faulted invocation, then N+s re-runs of the whole
history in a fresh sandbox fail exactly the i-th.  The script runs unmodified under bash inside a private mount
namespace + chroot with stub tools (mc/sandbox/box.py).
"""
import itertools
import sys
from collections import Counter

from mc.core import findings as F
from mc.core import par
from mc.core.evidence import Report
from mc.core.translate import translate
from mc.lang.jobcfg import parse_output, parse_trees
from mc.sandbox.box import Sandbox, build_macro, namespaces_available

PROP = "C16"
F1, F2 = "/data/one.root", "/data/two.root"
FB = "/data/run 2012B/part one.root"      # a legal path with blanks
FU = "root://eos.example.org//data/one.root"      # a URL, as ServiceX passes them
MOUNTED = ["/data/f0.root", "/data/f1.root"]
BUILD_TOOLS = {"cmake", "make", "scram", "mkedanlzr"}
JOB_TOOLS = {"python", "cmsRun"}
SRC = {"atlas": ["release_setup", "platform_setup"], "cms_aod": ["entrypoint"], "cms_miniaod": ["entrypoint"]}

# name -> argv (paths are sandbox-inner)
INV = {
    "full": [],
    "c": ["-c"],
    "r": ["-r"],
    "c-r": ["-c", "-r"],
    "d": ["-d", F1],
    "o-dir": ["-o", "/out1"],
    "o-file": ["-o", "/out1/result.root"],
    "d-o": ["-d", F1, "-o", "/out1"],
    "r-d-o": ["-r", "-d", F1, "-o", "/out1"],
    "r-d2-o2": ["-r", "-d", F2, "-o", "/out2"],
    "r-o-file": ["-r", "-o", "/out2/x.root"],
    "unknown": ["-x"],
    "unknown-after-valid": ["-c", "-q"],
    "missing-optarg": ["-d"],
    "stray": ["stray"],
    "stray-after-flag": ["-c", "stray"],
    "r-d-joined": ["-rd", F1],
    "d-blank": ["-d", FB],
    "d-url": ["-d", FU],
    "r-d-url-o": ["-r", "-d", FU, "-o", "/out1"],
    "r-d-blank-o": ["-r", "-d", FB, "-o", "/out2"],
}
HIST = ["full", "c", "r-d-o", "r-d2-o2", "r"]


def parse_inv(argv):
    "What the invocation asks for, read off the documented flag meanings (independent of the script)."
    compile_, run, inp, out, bad = True, True, None, "/results", None
    i = 0
    args = list(argv)
    # expand joined short flags (getopts semantics)
    exp = []
    for a in args:
        if a.startswith("-") and len(a) > 2 and a[1] in "cr":
            exp += ["-" + ch for ch in a[1:]]
        else:
            exp.append(a)
    args = exp
    while i < len(args):
        a = args[i]
        if a == "-c":
            run = False
        elif a == "-r":
            compile_ = False
        elif a == "-d":
            if i + 1 >= len(args):
                bad = 10
                break
            inp = args[i + 1]
            i += 1
        elif a == "-o":
            if i + 1 >= len(args):
                bad = 10
                break
            out = args[i + 1]
            i += 1
        elif a.startswith("-"):
            bad = 10
            break
        else:
            bad = 1
            break
        i += 1
    return compile_, run, inp, out, bad


def run_history(files, backend, names, fault_at=None, fault=None, srcfault=None, macro_dir=None, how="abs"):
    """Run the invocations `names` in one fresh sandbox; inject `fault` (command index) or `srcfault` in invocation
    number fault_at.  Returns the list of per-invocation observations."""
    sb = Sandbox(files, backend, filelist=MOUNTED, macro_dir=macro_dir)
    obs = []
    try:
        for k, nm in enumerate(names):
            argv = [sb.inner(a) if a.startswith("/out") else a for a in INV[nm]]
            out_dirs_before = {d: sb.path(d).is_dir() for d in ("/out1", "/out2", "/results")}
            rc, log, nonce, text = sb.invoke(argv, fault=fault if k == fault_at else None, srcfault=srcfault if k == fault_at else None, how=how)
            cmds = [l for l in log if len(l) >= 5 and l[0].isdigit()]
            # a step that failed once and was RETRIED successfully (same tool, same arguments, later, no fault) did not fail
            fl = [l for l in log if l[0] == "FAULT"]
            recovered = False
            if len(fl) == 1 and not fl[0][2].endswith((":late", ":stuck")):
                hit = [c for c in cmds if c[0] == fl[0][1]]
                recovered = bool(hit) and any(c[1] == hit[0][1] and c[4] == hit[0][4] and int(c[0]) > int(hit[0][0]) for c in cmds)
            obs.append({"recovered": recovered,
                "name": nm, "rc": rc, "nonce": nonce, "ncmd": len(cmds), "tools": [l[1] for l in cmds], "occ": [f"{l[1]}:{l[3]}" for l in cmds],
                "fault_hit": any(l[0] == "FAULT" for l in log), "src": [l[0].split(" ", 1)[1] for l in log if l[0].startswith("SRC ")],
                "dest": {p: sb.read(p) for p in ("/results/ANALYSIS.root", "/out1/ANALYSIS.root", "/out1/result.root", "/out2/ANALYSIS.root", "/out2/x.root")},
                "isdir": out_dirs_before, "tail": text[-300:],
            })
    finally:
        sb.cleanup()
    return obs


def destination(out, isdir):
    if isdir.get(out):
        return out.rstrip("/") + "/ANALYSIS.root"
    return out


def check_invocation(o, built_before, faulted, backend):
    """Returns list of problems for one observed invocation."""
    probs = []
    compile_, run, inp, out, bad = parse_inv(INV[o["name"]])
    tools = o["tools"]
    if bad is not None:
        if o["rc"] != bad:
            probs.append(f"exit status {o['rc']} instead of {bad}")
        if o["ncmd"] != 0 or o["src"]:
            probs.append(f"ran commands before rejecting the command line: {tools[:5]} {o['src']}")
        return probs
    if not run and any(t in JOB_TOOLS for t in tools):
        probs.append("-c ran the analysis job")
    if not compile_ and any(t in BUILD_TOOLS for t in tools):
        probs.append("-r ran a build tool")
    dest = destination(out, o["isdir"])
    content = o["dest"].get(dest)
    # the delivered file must hold the job's tree at its top level (the CMS jobs write it one directory down; the
    # conversion step moves it up); for "no fresh output after a failure" a tree of this run anywhere in the file counts
    tree = parse_output(content, directory="-")
    fresh = tree is not None and tree["nonce"] == o["nonce"]
    fresh_any = any(t["nonce"] == o["nonce"] for t in parse_trees(content)) or (content is not None and f"NONCE {o['nonce']}\n" in content)
    want_inputs = [inp] if inp is not None else MOUNTED
    if faulted:
        if o.get("recovered") and o["rc"] == 0 and fresh and tree["inputs"] == want_inputs:
            return probs      # the failed attempt was retried and this run's output was delivered: no step failed in the end
        if o["fault_hit"] or faulted == "src":
            if o["rc"] == 0:
                probs.append("exit status 0 although a step failed")
            if fresh_any:
                probs.append("a fresh output was left at the destination although a step failed")
        return probs
    # fault-free expectations
    expect_ok = None
    if compile_ and not built_before:
        expect_ok = True
    elif not compile_ and run:
        expect_ok = bool(built_before)
    elif not compile_ and not run:
        expect_ok = None
    if expect_ok is True and o["rc"] != 0:
        probs.append(f"failed (exit {o['rc']}) although every step succeeded: {o['tail'][-200:]!r}")
    if expect_ok is False and o["rc"] == 0 and run:
        probs.append("-r reported success without a previous build")
    if o["rc"] == 0 and run:
        if not fresh:
            probs.append(f"exit 0 but no output of this run at {dest} (found {content!r})")
        else:
            got = tree["inputs"]
            if got != want_inputs:
                probs.append(f"job saw inputs {got} instead of {want_inputs}")
    if compile_ and o["rc"] == 0 and not any(t in BUILD_TOOLS for t in tools):
        probs.append("asked to build (no -r) and reported success, but no build step ran in this invocation")
    if o["rc"] == 0 and not run and fresh_any:
        probs.append("-c produced an output")
    return probs


def built_after(o, built_before):
    compile_, run, inp, out, bad = parse_inv(INV[o["name"]])
    if bad is None and compile_:
        # the build is usable iff its tools completed: judged by the build marker tools having run without fault
        if o["rc"] == 0:
            return True
        return built_before or None    # unknown after a failed build attempt
    return built_before


def explore(args):
    backend, files, hist, fault_scope, macro_dir = args[:5]
    how = args[5] if len(args) > 5 else "abs"
    stats = Counter()
    bad = []
    outcomes = set()
    base = run_history(files, backend, hist, macro_dir=macro_dir, how=how)
    stats["runs"] += 1
    built = False
    builts = []
    for k, o in enumerate(base):
        builts.append(built)
        if built is not None:
            for p in check_invocation(o, built, None, backend):
                bad.append({"backend": backend, "history": hist, "at": k, "fault": None, "problem": p})
        stats["invocations"] += 1
        outcomes.add((o["name"], o["rc"], tuple(o["tools"])))
        built = built_after(o, built)
    # single faults
    targets = range(len(hist)) if fault_scope == "any" else [len(hist) - 1]
    for k in targets:
        plans = [("cmd", o) for o in sorted(set(base[k]["occ"]), key=base[k]["occ"].index)] + [("src", s) for s in base[k]["src"]]
        # the analysis job and the conversion can also die AFTER having written their output (an exception at event k)
        plans += [("cmd", o + ":late") for o in sorted(set(base[k]["occ"]), key=base[k]["occ"].index) if o.split(":")[0] in JOB_TOOLS | {"root"}]
        # a delivery tool that fails at its k-th use and at every later use (a destination that stays unavailable)
        plans += [("cmd", o + ":stuck") for o in sorted(set(base[k]["occ"]), key=base[k]["occ"].index) if o.split(":")[0] in ("cp", "xrdcp", "mv")]
        for kind, what in plans:
            obs = run_history(files, backend, hist, fault_at=k, fault=what if kind == "cmd" else None, srcfault=what if kind == "src" else None, macro_dir=macro_dir, how=how)
            stats["runs"] += 1
            stats["fault_runs"] += 1
            o = obs[k]
            outcomes.add((o["name"], o["rc"], kind, what))
            failed_tool = what.split(":")[0] if kind == "cmd" else what
            if failed_tool == "dirname":
                # locating the script's own directory is not one of the steps the property lists (environment setup, build,
                # analysis job, format conversion, final copy); a failure there is outside the statement
                stats["skipped_dirname_faults"] += 1
                continue
            if kind == "cmd" and not o["fault_hit"]:
                bad.append({"backend": backend, "history": hist, "at": k, "fault": what, "problem": "harness: planned fault was not reached (nondeterministic command sequence)"})
                continue
            if builts[k] is None:
                continue
            for p in check_invocation(o, builts[k], kind, backend):
                bad.append({"backend": backend, "history": hist, "at": k, "fault": f"{kind}:{what}", "failed_tool": failed_tool,
                            "problem": p, "log_tail": o["tools"][-6:]})
            # invocations after a faulted one are still checked for the flag / exit-status rules
            b = built_after(o, builts[k])
            for k2 in range(k + 1, len(obs)):
                if b is not None:
                    for p in check_invocation(obs[k2], b, None, backend):
                        bad.append({"backend": backend, "history": hist, "at": k2, "fault": f"earlier {kind}:{what}@{k}", "problem": p})
                b = built_after(obs[k2], b)
    return stats, bad, outcomes


def main(tier="quick"):
    rep = Report(PROP, tier)
    known = F.load(PROP)
    work = []
    macro_dirs = []
    for backend, coll in (("atlas", "Jets"), ("cms_aod", "Muons"), ("cms_miniaod", "Muons")):
        pkg = translate(f"ds.Select(lambda e: e.{coll}('A').Count())", backend)
        if not pkg.ok:
            raise RuntimeError("harness: cannot render package for " + backend)
        files = {n: t for n, t in pkg.files.items()}
        macro_dir = build_macro(files)
        if macro_dir is not None:
            macro_dirs.append(macro_dir)
            if not (macro_dir / "macro_bin").exists():
                rep.notes.append(f"{backend}: copy_root_tree.C does not compile against the stand-in ROOT classes: " + (macro_dir / "compile.log").read_text()[-300:])
        hists = []
        maxh = 1 if tier == "quick" else 2
        for n in range(0, maxh + 1):
            for pre in itertools.product(HIST, repeat=n):
                for last in INV:
                    hists.append(list(pre) + [last])
        if tier != "quick":
            for pre in itertools.product(HIST, repeat=3):
                hists.append(list(pre))
        # "-r any number of times": long re-run histories in one build tree (six and seven invocations)
        for h in (["c", "r-d-o", "r-d2-o2", "r-d-o", "r-d2-o2", "r"], ["full", "r", "r", "r-d-o", "r", "r-d2-o2", "r"], ["full", "full", "r", "c", "r", "r", "r"]):
            hists.append(h)
        for h in hists:
            work.append((backend, files, h, "last" if tier == "quick" else "any", str(macro_dir) if macro_dir else None))
        # the same script started through a relative path and as an argument of bash (fault-free and with faults in the last step)
        for how in ("rel", "bash"):
            for h in (["full"], ["c", "r-d-o"], ["d-o"], ["full", "r"], ["c", "r-d-o", "r-d2-o2"], ["unknown"], ["stray"]):
                work.append((backend, files, h, "last", str(macro_dir) if macro_dir else None, how))
    try:
        res = par.pmap(explore, work)
    finally:
        import shutil
        for d in macro_dirs:
            shutil.rmtree(d, ignore_errors=True)
    stats = Counter()
    outcomes = set()
    nb = 0
    for s, bad, oc in res:
        stats.update(s)
        outcomes |= oc
        for b in bad:
            nb += 1
            f = F.match(known, b)
            if f is not None:
                rep.known_finding(f["id"], f["what"], f"{b['backend']} {b['history']} fault={b['fault']}")
                continue
            rep.violation(f"{b['backend']}-{nb}", f"[{b['backend']}] history {b['history']} invocation #{b['at']} fault={b['fault']}: {b['problem']}", b)
    rep.set("states", stats["invocations"])
    rep.set("transitions", stats["invocations"] + stats["fault_runs"])
    rep.set("traces_validated_against_impl", stats["runs"])
    rep.set("counters", dict(stats))
    rep.set("distinct_outcomes", len(outcomes))
    rep.set("sandbox", "mount namespace + chroot, script unmodified" if namespaces_available() else "FALLBACK: absolute prefixes rewritten in a copy of the script")
    rep.sample({"history": ["c", "r-d-o"], "argv": [INV["c"], INV["r-d-o"]], "faults": "every external command index of the last invocation, every sourced setup file"})
    rep.assumptions += ["a failing tool fails before producing its effect (no partial writes); one fault per history",
                        "faults of `dirname` (the script locating itself) are not demanded to abort the script: not one of the steps the property lists",
                        "bash and coreutils are trusted; cmake/make/scram/mkedanlzr/sudo are stubs with a minimal faithful effect",
                        "the job step executes the rendered job configuration (ATestRun_eljob.py / analyzer_cfg.py) unmodified against stand-in EventLoop / cmsRun frameworks, and the conversion step runs the rendered copy_root_tree.C compiled against stand-in ROOT classes (mc/standin/jobfw): a ROOT file is a text file of trees, each carrying the run's nonce and the inputs the job read",
                        "EventLoop refuses an existing submission directory (stub python does too)"]
    if not namespaces_available():
        rep.assumptions.append("mount namespaces unavailable: ran a copy of the script with /results, /home/atlas, /opt/cms, /xaod_calibration_cache prefixed by the scratch root")
    return rep.finish(require={"traces_validated_against_impl": 300, "distinct_outcomes": 10})


if __name__ == "__main__":
    sys.exit(main(sys.argv[1] if len(sys.argv) > 1 else "quick"))
