"""C10 - declared method, collection-return and enum types are honoured exactly.

The declaration space is enumerated: chains j.a().t() / j.a().b().t() where each link returns an object with pointer
depth 0..2 and each following method is declared with deref_count absent/0/1/2, terminal return types
double/int/float/bool (declared and undeclared), several deref counts on one type, collection returns (default vector,
custom collection by value / pointer / pointer-to-pointer) of float / int / object / object-pointer elements under
Select / Count / index / First / nesting, tree_type, enums in namespaces of depth 1-2 used as compare operand, argument
and return value.  The model classes are GENERATED FROM THE VERY SAME DECLARATION (real pointers to real storage; each
deref_count level is a wrapper struct with operator* / operator->), so the C++ compiler judges every '.', '->',
'(*x)->', loop variable and column type, and the run judges the values.
"""
import itertools
import sys
from collections import Counter

from mc.checks.c01 import classify_event
from mc.core import findings as F
from mc.core.evidence import Report
from mc.core.pipeline import Case, execute
from mc.edm.events import small_domain
from mc.lang import ref
from mc.lang.ref import Seq

PROP = "C10"
MD_TYPE = {"atlas": "add_atlas_event_collection_info", "cms_aod": "add_cms_aod_event_collection_info", "cms_miniaod": "add_cms_miniaod_event_collection_info"}

TERMINALS = {   # name -> (C++ return type, body over d, declared type or None, expected column types)
    "t_double_undeclared": ("double", "d->pt * 2 + 1", None, {"double"}),
    "t_double": ("double", "d->pt * 2 + 1", "double", {"double"}),
    "t_int": ("int", "d->nTrk + 10", "int", {"int"}),
    "t_float": ("float", "d->q", "float", {"float"}),
    "t_bool": ("bool", "d->good", "bool", {"bool"}),
}


# ------------------------------------------------------------------ reference twins (structural links are identities)
def _install_reference_methods():
    R = ref.RObj
    for nm in ("a", "b", "self0", "lnk"):
        setattr(R, nm, lambda self: self)
    R.t_double_undeclared = lambda self: self._o.pt * 2 + 1
    R.t_double = lambda self: self._o.pt * 2 + 1
    R.t_int = lambda self: self._o.nTrk + 10
    R.t_float = lambda self: self._o.q
    R.t_bool = lambda self: self._o.good
    R.depth_of_wrap = lambda self: 7
    R.take = lambda self, v: v * 2
    R.cf = lambda self: Seq(lambda: iter(self._o.tags))
    R.ci = lambda self: Seq(lambda: iter([int(t * 4) for t in self._o.tags]))
    R.co = lambda self: Seq(lambda: (ref.RObj(p, self._log) for p in self._o.parts))
    R.color = lambda self: self._o.nTrk % 3
    R.isColor = lambda self, c: (self._o.nTrk % 3) == c
    R.t_color = lambda self: self._o.nTrk % 3
    R.t_float_as_double = lambda self: self._o.q
    class _RPair:
        def __init__(self, o):
            self.first, self.second = 1.5, 2.5 + o.nTrk

        def nBins(self): return 7
        def width(self): return self.second - self.first
    R.range = lambda self: _RPair(self._o)
    R.link2 = lambda self: _RPair(self._o)
    R.dm_int = property(lambda self: self._o.nTrk + 10)
    R.dm_double = property(lambda self: self._o.pt * 2 + 1)


_install_reference_methods()


class _EnumNS:
    "Python twin of the declared enum: NS.Color.Red -> 0 ..."
    def __init__(self, path, values):
        self._path = path
        self._values = values

    def __getattr__(self, name):
        if name.startswith("_"):
            raise AttributeError(name)
        if self._path and name == self._path[0]:
            return _EnumNS(self._path[1:], self._values)
        if not self._path and name in self._values:
            return self._values.index(name)
        raise AttributeError(name)


# ------------------------------------------------------------------ model generation
def cxx_type(base, k):
    if k == 0:
        return base
    if k == 1:
        return f"const {base}*"
    return f"const {base}* const*"


def gen_level(i, wrap, next_link, terminals=True, extra=""):
    """Payload struct P<i> (+ typedef W<i>): `wrap` = deref count the declarations demand for calls on this level,
    next_link = None | dict(name, k, wrap) describing the link to level i+1."""
    lines = [f"struct P{i} {{", "  const vm::ObjData* d;", f"  P{i}() : d(nullptr) {{}}"]
    if terminals:
        for tn, (ct, body, _decl, _) in TERMINALS.items():
            lines.append(f"  {ct} {tn}() const {{ return {body}; }}")
        lines.append("  double take(double v) const { return v * 2; }")
        lines.append("  int dm_int = 0; double dm_double = 0;      // public data members (read without a call)")
    if extra:
        lines.append(extra)
    if next_link is not None:
        j = i + 1
        lines += [f"  P{j} s{j}; W{j} w{j}; const W{j}* p{j}; const W{j}* const* pp{j};",
                  f"  {cxx_type(f'W{j}', next_link['k'])} {next_link['name']}() const {{ return {['w%d' % j, 'p%d' % j, 'pp%d' % j][next_link['k']]}; }}"]
        lines.append(f"  void init(const vm::ObjData* dd) {{ d = dd; dm_int = dd->nTrk + 10; dm_double = dd->pt * 2 + 1; s{j}.init(dd); w{j} = {'W%d(&s%d)' % (j, j) if next_link['wrap'] else 's%d' % j}; p{j} = &w{j}; pp{j} = &p{j}; }}")
    else:
        lines.append("  void init(const vm::ObjData* dd) { d = dd; dm_int = dd->nTrk + 10; dm_double = dd->pt * 2 + 1; }")
    lines.append("};")
    return "\n".join(lines)


def gen_prelude(backend, links, root_extra="", pre="", level_extra=None):
    """links: list of dicts {name, k, wrap}: link n goes from level n-1 (0 = Root) to level n."""
    level_extra = level_extra or {}
    parts = [pre]
    n = len(links)
    # forward typedefs need complete payloads: emit deepest level first
    for i in range(n, 0, -1):
        nxt = links[i] if i < n else None
        wrap = links[i - 1]["wrap"]
        if nxt is not None:
            pass
        parts.append(gen_level(i, wrap, nxt, extra=level_extra.get(i, "")))
        if wrap:
            # the wrapper also answers a method of its own (a different deref count on the same type)
            parts.append(f"struct W{i} : vm::Wrap<P{i}, {wrap}> {{ W{i}() {{}} explicit W{i}(const P{i}* p) : vm::Wrap<P{i}, {wrap}>(p) {{}} int depth_of_wrap() const {{ return 7; }} }};")
        else:
            parts.append(f"typedef P{i} W{i};")
    ptr = backend == "atlas"
    root = ["class Root : public vm::ObjT<Root, %s> {" % ("true" if ptr else "false"), "public:", "  Root() {}",
            "  explicit Root(const vm::ObjData& d) : vm::ObjT<Root, %s>(d) {}" % ("true" if ptr else "false"),
            '  static const char* vm_container_name() { return "RootContainer"; }', '  static std::string vm_collection_name() { return "RootCollection"; }']
    if n:
        l0 = links[0]
        root += ["  P1 s1; W1 w1; const W1* p1; const W1* const* pp1;",
                 f"  {cxx_type('W1', l0['k'])} {l0['name']}() const {{ return {['w1', 'p1', 'pp1'][l0['k']]}; }}",
                 "  void fixup() { vm::ObjT<Root, %s>::fixup(); s1.init(d_); w1 = %s; p1 = &w1; pp1 = &p1; vm_fix_more(); }" % ("true" if ptr else "false", "W1(&s1)" if l0["wrap"] else "s1")]
    else:
        root += ["  void fixup() { vm::ObjT<Root, %s>::fixup(); vm_fix_more(); }" % ("true" if ptr else "false")]
    root.append("  double take(double v) const { return v * 2; }")
    root.append(root_extra if "vm_fix_more" in root_extra else root_extra + "\n  void vm_fix_more() {}")
    root.append("};")
    root.append("typedef DataVector<Root> RootContainer;" if ptr else "typedef std::vector<Root> RootCollection;")
    parts.append("\n".join(root))
    return "\n".join(parts)


def coll_decl(backend):
    d = {"metadata_type": MD_TYPE[backend], "name": "Roots", "include_files": ["vector"], "contains_collection": True,
         "container_type": "RootContainer" if backend == "atlas" else "RootCollection", "element_type": "Root"}
    return d


def mti(type_string, method, **kw):
    d = {"metadata_type": "add_method_type_info", "type_string": type_string, "method_name": method}
    d.update(kw)
    return d


DEREFS = [None, 0, 1, 2]


def build(backend, tier):
    cases = []
    per = "ds.SelectMany(lambda e: e.Roots('A')).Select(lambda j: {})"
    base_md = [coll_decl(backend)]

    def add(kind, expr_or_query, md, prelude, col_types=None, want_warning=None, env=None, whole=False):
        q = expr_or_query if whole else per.format(expr_or_query)
        cases.append({"kind": kind, "query": q, "md": tuple(base_md + md), "prelude": prelude, "col_types": col_types, "want_warning": want_warning, "env_key": env})

    def term_md(type_string, tn, deref):
        decl = TERMINALS[tn][2]
        if decl is None:
            return []
        kw = {"return_type": decl}
        if deref is not None:
            kw["deref_count"] = deref
        return [mti(type_string, tn, **kw)]
    # ---- chains of length 2: j.a().t()
    for k1, d, tn in itertools.product((0, 1, 2), DEREFS, TERMINALS):
        if TERMINALS[tn][2] is None and d not in (None, 0):
            continue     # an undeclared method cannot carry a deref_count
        wrap = d or 0
        links = [{"name": "a", "k": k1, "wrap": wrap}]
        md = [mti("Root", "a", return_type="W1" + "*" * k1)] + term_md("W1", tn, d)
        pre = gen_prelude(backend, links)
        uses = {"column": f"j.a().{tn}()"}
        if tn in ("t_double", "t_int"):
            uses.update({"arith": f"(j.a().{tn}() + 1)", "argument": f"j.take(j.a().{tn}())", "twice": f"(j.a().{tn}() + j.a().t_int())"})
        for un, e in uses.items():
            mdu = md + ([mti("Root", "take", return_type="double")] if un == "argument" else []) + (term_md("W1", "t_int", d) if un == "twice" and tn != "t_int" else [])
            add(f"chain2:{un}:k{k1}:d{d}:{tn}", e, mdu, pre, col_types=TERMINALS[tn][3] if un == "column" else None,
                want_warning=(f"W1::{tn}" if TERMINALS[tn][2] is None else None))
        if tn == "t_int":
            add(f"chain2:where:k{k1}:d{d}", f"ds.Select(lambda e: e.Roots('A').Where(lambda j: j.a().t_int() > 10).Count())", md, pre, whole=True)
            add(f"chain2:ev-vector:k{k1}:d{d}", f"ds.Select(lambda e: e.Roots('A').Select(lambda j: j.a().t_int()))", md, pre, col_types={"std::vector<int>"}, whole=True)
    # ---- declarations that OVERRIDE a backend default: the executor pre-declares e.g. xAOD::TruthParticle::prodVtx as a
    # pointer to a vertex; metadata that declares the same (type, method) differently must be the one honoured.  The
    # collection's element type is given the default's type NAME (only a registry key: loops use `auto`).
    dtype, dmeth = {"atlas": ("xAOD::TruthParticle", "prodVtx"), "cms_aod": ("reco::Muon", "globalTrack"), "cms_miniaod": ("pat::Muon", "globalTrack")}[backend]
    dcoll = dict(coll_decl(backend), element_type=dtype)
    for k1, d, tn in itertools.product((0, 1, 2), (None, 1), ("t_int", "t_double", "t_bool")):
        links = [{"name": dmeth, "k": k1, "wrap": d or 0}]
        md = [mti(dtype, dmeth, return_type="W1" + "*" * k1)] + term_md("W1", tn, d)
        cases.append({"kind": f"override-default:k{k1}:d{d}:{tn}", "query": per.format(f"j.{dmeth}().{tn}()"), "md": tuple([dcoll] + md),
                      "prelude": gen_prelude(backend, links), "col_types": TERMINALS[tn][3], "want_warning": None, "env_key": None,
                      "ref_text": per.format(f"j.a().{tn}()")})
    # the same (type, method) declared twice in one query with identical content is one declaration
    for k1 in (0, 1):
        links = [{"name": "a", "k": k1, "wrap": 0}]
        md = [mti("Root", "a", return_type="W1" + "*" * k1)] * 2 + term_md("W1", "t_int", None) * 2
        add(f"declared-twice-identically:k{k1}", "j.a().t_int()", md, gen_prelude(backend, links), col_types={"int"})
    # ---- the declarations in force are those of THIS query: an earlier query of the same process (translated on the same
    # executor object, or on another one as LocalFile does) that declared the same (type, method) differently - or declared
    # what this query leaves undeclared - changes nothing
    for k1, how in itertools.product((0, 1), ("same", "other")):
        links = [{"name": "a", "k": k1, "wrap": 0}]
        pre = gen_prelude(backend, links)
        md_now = [mti("Root", "a", return_type="W1" + "*" * k1)] + term_md("W1", "t_int", None)
        earlier = {
            "terminal-other-type": [mti("Root", "a", return_type="W1" + "*" * k1), mti("W1", "t_int", return_type="double"), mti("W1", "t_double_undeclared", return_type="int")],
            "link-other-depth": [mti("Root", "a", return_type="W1" + "*" * (1 - k1))] + term_md("W1", "t_int", None),
            "terminal-deref": [mti("Root", "a", return_type="W1" + "*" * k1), mti("W1", "t_int", return_type="int", deref_count=1), mti("W1", "t_double_undeclared", return_type="double", deref_count=1)],
        }
        for en, emd in earlier.items():
            pr = [(per.format("j.a().t_int()"), tuple(base_md + emd))]
            for kind, e, md, ct, ww in ((f"after-earlier-query:{how}:{en}:declared:k{k1}", "j.a().t_int()", md_now, {"int"}, None),
                                        (f"after-earlier-query:{how}:{en}:declared-arith:k{k1}", "(j.a().t_int() / 2)", md_now, {"double"}, None),
                                        (f"after-earlier-query:{how}:{en}:undeclared:k{k1}", "j.a().t_double_undeclared()", md_now[:1], {"double"}, "W1::t_double_undeclared")):
                add(kind, e, md, pre, col_types=ct, want_warning=ww)
                cases[-1]["prior"] = pr
                cases[-1]["prior_executor"] = how
    # ---- const-qualified declarations ("const W1*"): the qualifier must survive into every declaration made from the type
    for k1, d, tn in itertools.product((0, 1, 2), (None, 1), ("t_int", "t_double")):
        links = [{"name": "a", "k": k1, "wrap": d or 0}]
        md = [mti("Root", "a", return_type="const W1" + "*" * k1)] + term_md("W1", tn, d)
        pre = gen_prelude(backend, links)
        add(f"const:chain2:k{k1}:d{d}:{tn}", f"j.a().{tn}()", md, pre, col_types=TERMINALS[tn][3])
        add(f"const:first:k{k1}:d{d}:{tn}", f"ds.Select(lambda e: e.Roots('A').Select(lambda j: j.a()).First().{tn}())", md, pre, whole=True)
        add(f"const:ifexp:k{k1}:d{d}:{tn}", f"(j.a().{tn}() if j.a().t_int() > 10 else j.a().{tn}())", md + (term_md("W1", "t_int", d) if tn != "t_int" else []), pre)
    # ---- data members (no call) behind every object indirection x deref count: j.a().dm_int / j.a().dm_double
    for k1, d in itertools.product((0, 1, 2), DEREFS):
        links = [{"name": "a", "k": k1, "wrap": d or 0}]
        kw = {} if d is None else {"deref_count": d}
        pre = gen_prelude(backend, links)
        md = [mti("Root", "a", return_type="W1" + "*" * k1), mti("W1", "dm_int", return_type="int", **kw)]
        add(f"member:int:k{k1}:d{d}", "j.a().dm_int", md, pre, col_types={"int"})
        add(f"member:arith:k{k1}:d{d}", "(j.a().dm_int + 1)", md, pre, col_types={"int"})
        add(f"member:where:k{k1}:d{d}", "ds.Select(lambda e: e.Roots('A').Where(lambda j: j.a().dm_int > 10).Count())", md, pre, whole=True)
        mdd = [mti("Root", "a", return_type="W1" + "*" * k1)] + ([mti("W1", "dm_double", return_type="double", **kw)] if d is not None else [])
        add(f"member:double:k{k1}:d{d}", "j.a().dm_double", mdd, pre, col_types={"double"}, want_warning="dm_double" if d is None else None)
        add(f"member:with-method:k{k1}:d{d}", "(j.a().dm_int, j.a().t_int())", md + term_md("W1", "t_int", d), pre)
    # ---- class-template types spelled the usual C++ way, with blanks next to < > and , - in return_type and type_string alike
    tpre = ("template <class A, class B> struct TPair { A first; B second; int nBins() const { return 7; } double width() const { return second - first; } };\n"
            "template <class T> struct TLink { const T* p; const T* operator->() const { return p; } const T& operator*() const { return *p; } };\n")
    for spelled in ("TPair<float, float>", "TPair<float,float>", "TPair< float, float >"):
        extra = f"  TPair<float, float> range() const {{ return TPair<float, float>{{1.5f, 2.5f + d_->nTrk}}; }}"
        pre = gen_prelude(backend, [], root_extra=extra, pre=tpre)
        md = [mti("Root", "range", return_type=spelled), mti(spelled, "nBins", return_type="int"), mti(spelled, "first", return_type="float"), mti(spelled, "width", return_type="double")]
        add(f"template-blanks:method:{spelled}", "j.range().nBins()", md, pre, col_types={"int"})
        add(f"template-blanks:member:{spelled}", "j.range().first", md, pre, col_types={"float"})
        add(f"template-blanks:arith:{spelled}", "(j.range().width() + j.range().nBins())", md, pre, col_types={"double"})
    for spelled in ("TLink<TPair<float, float> >", "TLink<TPair<float, float>>"):
        extra = ("  TPair<float, float> vm_pair; TLink<TPair<float, float> > link2() const { return TLink<TPair<float, float> >{&vm_pair}; }\n"
                 "  void vm_fix_more() { vm_pair = TPair<float, float>{1.5f, 2.5f + d_->nTrk}; }")
        pre = gen_prelude(backend, [], root_extra=extra, pre=tpre)
        md = [mti("Root", "link2", return_type=spelled), mti(spelled, "nBins", return_type="int", deref_count=1), mti(spelled, "width", return_type="double", deref_count=1)]
        add(f"template-blanks:deref:{spelled}", "j.link2().nBins()", md, pre, col_types={"int"})
        add(f"template-blanks:deref-double:{spelled}", "j.link2().width()", md, pre, col_types={"double"})
    # const in front of a type whose NAME starts with one of the letters of "const" (and a namespace-qualified one)
    for alias, k1 in itertools.product(("tW1", "sW1", "cW1", "oW1", "nW1", "ns::tW1"), (0, 1)):
        links = [{"name": "a", "k": k1, "wrap": 0}]
        td = f"namespace ns {{ typedef W1 tW1; }}\n" if "::" in alias else f"typedef W1 {alias};\n"
        pre = gen_prelude(backend, links).replace("class Root ", td + "class Root ", 1)
        md = [mti("Root", "a", return_type=f"const {alias}" + "*" * k1)] + term_md(alias, "t_int", None)
        add(f"const-name:{alias}:k{k1}", "j.a().t_int()", md, pre, col_types={"int"})
        add(f"const-name-vector:{alias}:k{k1}", "ds.Select(lambda e: e.Roots('A').Select(lambda j: j.a().t_int()))", md, pre, col_types={"std::vector<int>"}, whole=True)
    # ---- two deref counts on one type: the wrapper's own method (deref 0) and the payload's (deref d)
    for k1, d in itertools.product((0, 1, 2), (1, 2)):
        links = [{"name": "a", "k": k1, "wrap": d}]
        md = [mti("Root", "a", return_type="W1" + "*" * k1), mti("W1", "depth_of_wrap", return_type="int"), mti("W1", "t_int", return_type="int", deref_count=d)]
        add(f"mixed-deref:k{k1}:d{d}", "(j.a().depth_of_wrap(), j.a().t_int())", md, gen_prelude(backend, links), col_types=None)
    # ---- chains of length 3: j.a().b().t()
    l3 = itertools.product((0, 1, 2), DEREFS, (0, 1, 2), DEREFS) if tier != "quick" else \
        [(k1, d1, k2, d2) for k1, d1, k2, d2 in itertools.product((0, 1, 2), DEREFS, (0, 1, 2), DEREFS) if (k1 + (d1 or 0) + k2 + (d2 or 0)) % 2 == 0 or (k1, k2) == (1, 1)]
    for k1, d1, k2, d2 in l3:
        links = [{"name": "a", "k": k1, "wrap": d1 or 0}, {"name": "b", "k": k2, "wrap": d2 or 0}]
        kwb = {"return_type": "W2" + "*" * k2}
        if d1 is not None:
            kwb["deref_count"] = d1
        kwt = {"return_type": "int"}
        if d2 is not None:
            kwt["deref_count"] = d2
        md = [mti("Root", "a", return_type="W1" + "*" * k1), mti("W1", "b", **kwb), mti("W2", "t_int", **kwt)]
        add(f"chain3:k{k1}:d{d1}:k{k2}:d{d2}", "j.a().b().t_int()", md, gen_prelude(backend, links), col_types={"int"})
    # ---- collections returned by a method
    elem = {
        "float": ("float", "vm_tags", None), "int": ("int", "vm_itags", None),
        "obj": ("P1", "vm_objs", "t_int"), "objptr": ("const P1*", "vm_objptrs", "t_int"),
    }
    for en, (ctype, store, tmeth) in elem.items():
        # "spelled": the collection type is declared by its template spelling (std::vector<const P1*>, and a pointer to it) -
        # a '*' inside the template arguments is part of the element type, not of the collection's pointer depth
        for cform, cptr in (("default", 0), ("custom", 0), ("custom", 1), ("spelled", 0), ("spelled", 1)):
            cname = f"std::vector<{ctype}>" if cform in ("default", "spelled") else "MyVec"
            pre_types = "" if cform in ("default", "spelled") else f"struct MyVec : std::vector<{ctype}> {{}};"
            ret = cxx_type(cname, cptr)
            extra = (f"  std::vector<float> vm_tags_; std::vector<int> vm_itags_; std::vector<P1> vm_objs_; std::vector<const P1*> vm_objptrs_;\n"
                     f"  {cname} cstore; const {cname}* cp; const {cname}* const* cpp;\n"
                     f"  {ret} c() const {{ return {['cstore', 'cp', 'cpp'][cptr]}; }}\n"
                     "  void vm_fix_more() { vm_tags_ = d_->tags; vm_itags_.clear(); for (auto t : d_->tags) vm_itags_.push_back(int(t * 4));\n"
                     "    vm_objs_.clear(); for (auto& p : d_->parts) { P1 x; x.init(&p); vm_objs_.push_back(x); }\n"
                     "    vm_objptrs_.clear(); for (auto& x : vm_objs_) vm_objptrs_.push_back(&x);\n"
                     f"    cstore.clear(); for (auto& x : {store}_) cstore.push_back(x); cp = &cstore; cpp = &cp; }}")
            pre = gen_prelude(backend, [], root_extra=extra, pre="\n".join([gen_level(1, 0, None), "typedef P1 W1;", pre_types]))
            kw = {"return_type_element": {"float": "float", "int": "int", "obj": "P1", "objptr": "P1*"}[en]}
            if cform != "default":
                kw["return_type_collection"] = cname + "*" * cptr
            md = [mti("Root", "c", **kw)]
            refm = {"float": "cf", "int": "ci", "obj": "co", "objptr": "co"}[en]
            body = "(x * 2)" if tmeth is None else f"x.{tmeth}()"
            if tmeth:
                md.append(mti("P1", tmeth, return_type="int"))
            et = {"float": "float", "int": "int", "obj": "int", "objptr": "int"}[en]
            etsel = {"float": {"float", "double"}, "int": {"int"}, "obj": {"int"}, "objptr": {"int"}}[en]
            tag = f"{en}:{cform}{'*' * cptr}"
            add(f"coll:select:{tag}", f"ds.Select(lambda e: e.Roots('A').Select(lambda j: j.c().Select(lambda x: {body})))".replace("j.c()", f"j.{refm}()").replace(f"j.{refm}()", "j.c()"),
                md, pre, col_types={f"std::vector<std::vector<{t}>>" for t in etsel}, env=refm, whole=True)
            add(f"coll:count:{tag}", "j.c().Count()", md, pre, col_types={"int"}, env=refm)
            add(f"coll:index:{tag}", ("j.c()[0]" if tmeth is None else f"j.c()[0].{tmeth}()"), md, pre, col_types={et}, env=refm)
            add(f"coll:first:{tag}", ("j.c().First()" if tmeth is None else f"j.c().First().{tmeth}()"), md, pre, env=refm)
            add(f"coll:selectmany:{tag}", f"ds.Select(lambda e: e.Roots('A').SelectMany(lambda j: j.c()).Select(lambda x: {body}))", md, pre, col_types={f"std::vector<{t}>" for t in etsel}, env=refm, whole=True)
            add(f"coll:sum:{tag}", f"j.c().Select(lambda x: {body}).Sum()", md, pre, env=refm)
    # ---- tree_type
    enum_pre = "enum Color { Red, Blue, Green };"
    extra = "  Color t_color() const { return (Color)(d_->nTrk % 3); }\n  float t_float_as_double() const { return d_->q; }"
    pre = gen_prelude(backend, [], root_extra=extra, pre=enum_pre)
    add("tree_type:enum-as-int", "j.t_color()", [mti("Root", "t_color", return_type="Color", tree_type="int")], pre, col_types={"int"})
    add("tree_type:float-as-double", "j.t_float_as_double()", [mti("Root", "t_float_as_double", return_type="float", tree_type="double")], pre, col_types={"double"})
    add("tree_type:vector", "ds.Select(lambda e: e.Roots('A').Select(lambda j: j.t_color()))", [mti("Root", "t_color", return_type="Color", tree_type="int")], pre,
        col_types={"std::vector<int>"}, whole=True)
    # ---- enums in namespaces of depth 1 and 2
    for depth in (1, 2, 3, 4):
        ns = ["NSA", "Sub", "Deep", "Er"][:depth]
        ns_py = ".".join(ns)
        ns_cpp = "::".join(ns)
        vals = ["Red", "Blue", "Green"]
        epre = "".join(f"namespace {n} {{ " for n in ns) + "enum Color { Red, Blue, Green };" + " }" * depth
        extra = (f"  {ns_cpp}::Color color() const {{ return ({ns_cpp}::Color)(d_->nTrk % 3); }}\n"
                 f"  bool isColor({ns_cpp}::Color c) const {{ return (d_->nTrk % 3) == (int)c; }}")
        pre = gen_prelude(backend, [], root_extra=extra, pre=epre)
        emd = [{"metadata_type": "define_enum", "namespace": ns_py, "name": "Color", "values": vals}]
        for v in vals:
            add(f"enum:compare:depth{depth}:{v}", f"(j.color() == {ns_py}.Color.{v})", emd + [mti("Root", "color", return_type=f"{ns_cpp}::Color")], pre, col_types={"bool"}, env=f"enum:{ns_py}")
            add(f"enum:argument:depth{depth}:{v}", f"j.isColor({ns_py}.Color.{v})", emd + [mti("Root", "isColor", return_type="bool")], pre, col_types={"bool"}, env=f"enum:{ns_py}")
        add(f"enum:where:depth{depth}", f"ds.Select(lambda e: e.Roots('A').Where(lambda j: j.color() != {ns_py}.Color.Red).Count())",
            emd + [mti("Root", "color", return_type=f"{ns_cpp}::Color")], pre, env=f"enum:{ns_py}", whole=True)
        add(f"enum:output:depth{depth}", "j.color()", emd + [mti("Root", "color", return_type=f"{ns_cpp}::Color", tree_type="int")], pre, col_types={"int"}, env=f"enum:{ns_py}")
    return cases


def make_env(key):
    if key is None:
        return {}
    if key.startswith("enum:"):
        path = key.split(":", 1)[1].split(".")
        return {path[0]: _EnumNS(path[1:] + ["Color"], ["Red", "Blue", "Green"])}
    # collection twin: j.c() is the reference method named by key
    return {"__coll__": key}


def post(outs, events):
    stats = Counter()
    recs = []
    forms = set()
    for o in outs:
        c = o.case
        info = c.info
        base = {"kind": info["kind"], "query": c.text, "backend": c.backend, "declarations": [dict(m) for m in info["md"][1:]][:4]}
        if o.status == "refused":
            recs.append(dict(base, symptom="refused", exc=f"{o.pkg.exc_type}: {o.pkg.exc_msg}"[:250]))
            continue
        if o.status == "compile_fail":
            recs.append(dict(base, symptom="compile-fail", error="; ".join(o.errors[:2])[:300]))
            continue
        stats["accepted"] += 1
        env = make_env(info["env_key"])
        ck = env.pop("__coll__", None)
        if ck:
            ref.RObj.c = getattr(ref.RObj, ck)
        first = None
        for j in o.jobs:
            if not j.events:
                continue
            er = j.events[0]
            r = classify_event(info.get("ref_text") or c.text, events[er.event], er, extra_env=env)
            stats["executions"] += 1
            if r is None:
                stats["agree"] += 1
            elif isinstance(r, tuple):
                stats["skipped_" + r[1]] += 1
            elif first is None:
                first = r
        if first is not None:
            first.update(base)
            recs.append(first)
        if info["col_types"] and o.jobs and o.jobs[0].schema:
            t = o.jobs[0].schema[0][1][0][1]
            stats["types_checked"] += 1
            if t not in info["col_types"]:
                recs.append(dict(base, symptom="column-type", observed_type=t, expected=sorted(info["col_types"])))
        if info["want_warning"]:
            stats["warnings_checked"] += 1
            if not any("assuming that the method" in w and info["want_warning"] in w for w in o.pkg.warnings):
                recs.append(dict(base, symptom="no-warning", warnings=o.pkg.warnings[:3]))
        # which access forms did this program use (vacuity guard)
        src = o.pkg.files.get(o.pkg.source_name, "") if o.pkg.files else ""
        for f in ("(*(*", "(*", "->", "."):
            if f in src:
                forms.add(f)
    return stats, recs, forms


def main(tier="quick"):
    rep = Report(PROP, tier)
    known = F.load(PROP)
    events = small_domain()[:18]
    cases = []
    pid = 0
    for backend in ("atlas", "cms_aod", "cms_miniaod"):
        for c in build(backend, tier):
            cases.append(Case(pid, backend, c["query"], c["md"], c))
            pid += 1
    res = execute(cases, events, chunk_size=40, post=post, keep_files=True)
    stats = Counter()
    recs = []
    forms = set()
    for s, r, f in res:
        stats.update(s)
        recs += r
        forms |= f
    for i, r in enumerate(sorted(recs, key=lambda r: (r["kind"], r["backend"]))):
        r["family"] = r["kind"].split(":")[0]
        f = F.match(known, r)
        if f is not None:
            rep.known_finding(f["id"], f["what"], f"{r['kind']} {r['query'][:100]}")
            continue
        rep.violation(f"{r['backend']}-{r['kind']}", f"{r['symptom']} [{r['backend']}] {r['kind']}: {r['query'][:160]} decl={str(r['declarations'])[:260]} :: " +
                      str({k: r[k] for k in ("exc", "error", "observed_type", "expected", "observed", "warnings") if k in r})[:300], r)
    rep.set("states", len(cases))
    rep.set("transitions", len(cases))
    rep.set("traces_validated_against_impl", stats["executions"])
    rep.set("counters", dict(stats))
    rep.set("types_checked", stats["types_checked"])
    rep.set("access_forms_seen", sorted(forms))
    rep.sample({"kind": cases[0].info["kind"], "query": cases[0].text, "declarations": [dict(m) for m in cases[0].metadata]})
    rep.sample({"kind": cases[-1].info["kind"], "query": cases[-1].text})
    rep.assumptions += ["model classes are generated from the declaration under test: pointer levels are real pointers, each deref_count level a wrapper with operator*/operator->",
                        "quick tier enumerates all length-2 chains and half of the length-3 chains (parity of total indirection, plus all (1,1) depth pairs); thorough all 144"]
    return rep.finish(require={"traces_validated_against_impl": 1000, "types_checked": 50})


if __name__ == "__main__":
    sys.exit(main(sys.argv[1] if len(sys.argv) > 1 else "quick"))
