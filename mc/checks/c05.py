"""C05 - rows for an event depend on that event only.

For every program of the grammar enumeration (C01's quick set), of the partiality set (C04) and of a set whose values
come from opaque / collection-returning injected C++, the compiled job is run over histories of a representative event
set: every single event in a fresh job, all ordered pairs (a, b) incl. (a, a) in one job, (thorough) all ordered
triples, and all permutations of a 4-subset.  Reference-free differential oracle: rows(b | job that saw a,... before)
== rows(b | fresh job), at every position.
"""
import itertools
import sys
from collections import Counter

from mc.checks import c01, c04
from mc.core import findings as F
from mc.core.evidence import Report, seed
from mc.core.pipeline import Case, execute, run_standalone
from mc.edm.events import ARCH, EI, SEC, Event
from mc.lang import qgen
from mc.lang.features import features

PROP = "C05"


def rep_events():
    combos = [((), ()), ((0,), ()), ((2,), (0,)), ((2, 3), ()), ((0, 2), (1,)), ((1, 0), ()), ((3, 2), (1, 0)), ((1,), (0,))]
    evs = [Event(i, (("A", tuple(ARCH[k] for k in p)), ("B", tuple(SEC[k] for k in s)), ("EI", (EI,)))) for i, (p, s) in enumerate(combos)]
    # events of a differently processed file: a collection is not there at all (not: empty).  The job must fail on them
    # (ATLAS: failed retrieve; CMS: invalid handle) - it must not carry on and leak what it had already filled.
    n = len(evs)
    evs.append(Event(n, (("A", (ARCH[2], ARCH[3])), ("EI", (EI,)))))          # no bank B
    evs.append(Event(n + 1, (("B", (SEC[0], SEC[1])), ("EI", (EI,)))))        # no bank A
    return evs


def plans(n, tier):
    ps = [("s%d" % i, [i]) for i in range(n)]
    for a, b in itertools.product(range(n), repeat=2):
        ps.append((f"p{a}_{b}", [a, b]))
    for perm in itertools.permutations((0, 2, 3, 6)):
        ps.append(("q" + "".join(map(str, perm)), list(perm)))
    ps.append(("all", list(range(n))))
    ps.append(("rev", list(reversed(range(n)))))
    if tier != "quick":
        for t in itertools.product(range(n), repeat=3):
            ps.append(("t%d_%d_%d" % t, list(t)))
    return ps


CPP_FN = {"metadata_type": "add_cpp_function", "name": "opaque", "include_files": [], "arguments": ["x"],
          "code": ["double result = x * 2 + 1;"], "result_name": "result", "return_type": "double"}
CPP_COLL = {"metadata_type": "add_cpp_function", "name": "vec_of", "include_files": ["vector"], "arguments": ["x", "n"],
            "code": ["std::vector<double> result;", "for (int k = 0; k < n; k++) result.push_back(x + k);"], "result_name": "result",
            "return_type": "double", "return_is_collection": True}


def opaque_programs(backend):
    a = qgen.ALPHA[backend]
    S = f"e.{a.primary}('A')"
    return [
        f"ds.Select(lambda e: {S}.Select(lambda j: opaque(j.pt())))",
        f"ds.SelectMany(lambda e: {S}).Select(lambda j: opaque(j.pt()) + opaque(j.eta()))",
        f"ds.Select(lambda e: {S}.Select(lambda j: opaque(j.pt())).Sum())",
        f"ds.Select(lambda e: {S}.Where(lambda j: opaque(j.pt()) > 2).Count())",
        f"ds.Select(lambda e: {S}.Select(lambda j: vec_of(j.pt(), j.nTrk()).Count()))",
        f"ds.Select(lambda e: {S}.SelectMany(lambda j: vec_of(j.pt(), j.nTrk())))",
        f"ds.Select(lambda e: {S}.Select(lambda j: vec_of(j.pt(), j.nTrk()).Select(lambda v: v * 2)))",
        f"ds.Select(lambda e: {S}.Select(lambda j: vec_of(j.pt(), 2).Sum()))",
        f"ds.Where(lambda e: {S}.Select(lambda j: opaque(j.pt())).Sum() > 3).Select(lambda e: {S}.Count())",
        f"ds.Select(lambda e: ({S}.Select(lambda j: opaque(j.pt())), {S}.Select(lambda j: j.tags().Count())))",
    ]


NOINIT = ("-ftrivial-auto-var-init=uninitialized",)


def rows_key(er):
    return (er.end, tuple((t, tuple(cells)) for t, cells in er.rows))


def post(outs, events):
    stats = Counter()
    recs = []
    varying = 0
    for o in outs:
        c = o.case
        if o.status != "ok":
            stats[o.status] += 1
            continue
        stats["programs"] += 1
        single = {}
        for j in o.jobs:
            if j.tag.startswith("s") and j.events:
                single[j.events[0].event] = rows_key(j.events[0])
        if len(set(single.values())) > 1:
            varying += 1
        bad = None
        for j in o.jobs:
            if j.tag.startswith("s"):
                continue
            for pos, er in enumerate(j.events):
                stats["positions"] += 1
                want = single.get(er.event)
                if want is None:
                    continue
                got = rows_key(er)
                if got != want:
                    if bad is None:
                        bad = {"symptom": "history-dependence", "job": j.tag, "history": [e.event for e in j.events[:pos + 1]], "position": pos,
                               "event": er.event, "fresh": str(want)[:200], "in_history": str(got)[:200]}
                    stats["mismatches"] += 1
                if er.end != "ok":
                    break
        if bad is not None:
            bad.update({"query": c.text, "backend": c.backend, "pid": c.pid, "source": c.info.get("source")})
            recs.append(bad)
    return stats, recs, varying


def main(tier="quick"):
    rep = Report(PROP, tier)
    known = F.load(PROP)
    events = rep_events()
    pl = plans(len(events), tier)
    cases = []
    pid = 0
    seen = set()
    # (1) the grammar enumeration (same bounds as C01's quick tier), (2) the partiality programs, (3) opaque C++
    gen_cases, _ = c01.build_cases("quick")
    for c in gen_cases:
        if c.info.get("ndev", 0) > (0 if tier == "quick" else 1):
            continue
        cases.append(Case(pid, c.backend, c.text, c.metadata, {"source": "grammar"}, plans=pl))
        pid += 1
    for backend in ("atlas", "cms_aod", "cms_miniaod"):
        md = tuple(qgen.method_metadata(qgen.ALPHA[backend]))
        for c in c04.build(backend, "quick"):
            cases.append(Case(pid, backend, c["query"], md, {"source": "partial"}, plans=pl))
            pid += 1
        # explicit column names that REPEAT (legal: each column keeps its own storage and branch): vector, 2-D and scalar columns
        a_ = qgen.ALPHA[backend]
        A_ = f"e.{a_.primary}('A')"
        cols = {"v1": f"{A_}.Select(lambda j: j.pt())", "v2": f"{A_}.Select(lambda j: j.eta())", "v3": f"{A_}.Where(lambda j: j.pt() > 1).Select(lambda j: j.nTrk())",
                "m": f"{A_}.Select(lambda j: j.tags().Select(lambda t: t * 2))", "s": f"{A_}.Count()"}
        for picks, names in ((("v1", "v2"), ["pt", "pt"]), (("v2", "v1"), ["pt", "pt"]), (("v1", "v2", "v3"), ["x", "x", "x"]), (("v1", "s", "v2"), ["pt", "n", "pt"]),
                             (("v1", "v2", "v3"), ["a", "b", "a"]), (("m", "v1"), ["c", "c"]), (("v1", "m"), ["c", "c"]), (("s", "v1"), ["c", "c"]), (("m", "m"), ["t", "t"])):
            q = f"ResultTTree(ds.Select(lambda e: ({', '.join(cols[p] for p in picks)})), {names!r}, 'mytree', 'file.root')"
            cases.append(Case(pid, backend, q, md, {"source": "repeated-names"}, plans=pl))
            pid += 1
        for q in opaque_programs(backend):
            cases.append(Case(pid, backend, q, md + (CPP_FN, CPP_COLL), {"source": "opaque"}, plans=pl))
            pid += 1
    # locals are NOT pattern-initialised here (C01 does that, to make a wrong value loud): a local that is read before this event
    # has written it must hold what the previous event left there, as it does in a real build - that is the history dependence
    res = execute(cases, events, chunk_size=60, post=post, flags=NOINIT)
    stats = Counter()
    recs = []
    varying = 0
    for s, r, v in res:
        stats.update(s)
        recs += r
        varying += v
    by_pid = {c.pid: c for c in cases}
    confirmed = 0
    for i, r in enumerate(sorted(recs, key=lambda r: (len(r["query"]), r["query"], r["backend"]))):
        r["features"] = sorted(features(r["query"]))
        f = F.match(known, r)
        if f is not None:
            rep.known_finding(f["id"], f["what"], r["query"][:130])
            continue
        if confirmed < 10:
            confirmed += 1
            c = by_pid[r["pid"]]
            o = run_standalone(c, events, [("h", r["history"]), ("f", [r["event"]])], flags=NOINIT)
            if o.status == "ok" and len(o.jobs) == 2 and o.jobs[0].events and o.jobs[1].events:
                a = rows_key(o.jobs[0].events[-1]) if len(o.jobs[0].events) == len(r["history"]) else None
                b = rows_key(o.jobs[1].events[0])
                if a == b:
                    if str(b)[:200] != r["fresh"]:
                        # the very same event, alone in a job, gave other rows in the batch process than it gives now: the rows
                        # are not a function of the event at all (storage read before it is written) - as bad as history dependence
                        r["standalone_confirmed"] = "rows-not-reproducible"
                        r["fresh_again"] = str(b)[:200]
                    else:
                        raise RuntimeError(f"harness: history dependence did not reproduce standalone: {r}")
                else:
                    r["standalone_confirmed"] = True
        rep.violation(f"{r['backend']}-{i}", f"rows of event {r['event']} depend on history {r['history']} [{r['backend']}]: {r['query'][:240]} :: fresh={r['fresh'][:120]} in-history={r['in_history'][:120]}", r)
    rep.set("states", stats["positions"])
    rep.set("transitions", stats["positions"])
    rep.set("traces_validated_against_impl", stats["positions"])
    rep.set("counters", dict(stats))
    rep.set("programs_whose_rows_differ_between_events", varying)
    rep.set("histories_per_program", len(pl))
    rep.sample({"query": cases[10].text, "histories": [p[1] for p in pl[8:14]]})
    rep.assumptions += ["a faulting event ends its job (as the frameworks do): histories are cut at the first fault",
                        "the injected C++ functions of the opaque set are pure"]
    return rep.finish(require={"traces_validated_against_impl": 10000, "programs_whose_rows_differ_between_events": 50})


if __name__ == "__main__":
    sys.exit(main(sys.argv[1] if len(sys.argv) > 1 else "quick"))
