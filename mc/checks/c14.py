"""C14 - injected code blocks land once, in order, in their documented places.

Exhaustive over: every subset of the seven fields for one block, every special line text in every field, every ordered
pair (thorough: triple) of blocks from a menu of relations (distinct / identical duplicate / conflicting duplicate /
unknown field / empty), attached at different chain positions; each rendered by the real executor and located by a
structural region parser of the rendered files.
"""
import itertools
import sys
from collections import Counter

from mc.core import findings as F
from mc.core import par
from mc.core.evidence import Report
from mc.core.translate import translate

PROP = "C14"
FIELDS = ["body_includes", "header_includes", "private_members", "instance_initialization", "ctor_lines", "initialize_lines", "link_libraries"]
SPECIAL = ["{{ x }}", "{% y %}", "{# z #}", "<vector>", "a && b", "\"quoted\"", "'single'", "  lead", "tab\there", "x < y > z", "&amp;", "{{", "%}"]


def mk_line(tag, text=""):
    return f"{tag}{text}"


# ------------------------------------------------------------------ region parser for the rendered ATLAS package
def regions_atlas(files):
    cxx = files["query.cxx"].split("\n")
    hdr = files["query.h"].split("\n")
    cm = files["package_CMakeLists.txt"].split("\n")

    def idx(lines, pred, start=0):
        for i in range(start, len(lines)):
            if pred(lines[i]):
                return i
        raise RuntimeError("harness: template anchor not found")
    r = {}
    a = idx(cxx, lambda l: "TFileAccessTracer.h" in l)
    b = idx(cxx, lambda l: l.strip() == "#include <TTree.h>")
    r["body_includes"] = ("query.cxx", a + 1, b, cxx)
    c0 = idx(cxx, lambda l: ": EL::AnaAlgorithm (name, pSvcLocator)" in l)
    c1 = idx(cxx, lambda l: l.strip() == "{", c0)
    r["instance_initialization"] = ("query.cxx", c0 + 1, c1, cxx)
    d0 = idx(cxx, lambda l: "enableDataSubmission(false)" in l, c1)
    d1 = idx(cxx, lambda l: l.startswith("StatusCode query :: initialize"), d0)
    r["ctor_lines"] = ("query.cxx", d0 + 1, d1, cxx)
    e0 = idx(cxx, lambda l: l.strip() == "{", d1)
    e1 = idx(cxx, lambda l: l.startswith("StatusCode query :: execute"), e0)
    r["initialize_lines"] = ("query.cxx", e0 + 1, e1, cxx)
    h0 = idx(hdr, lambda l: "AnaAlgorithm/AnaAlgorithm.h" in l)
    h1 = idx(hdr, lambda l: l.startswith("class query"))
    r["header_includes"] = ("query.h", h0 + 1, h1, hdr)
    p0 = idx(hdr, lambda l: l.strip() == "private:")
    p1 = idx(hdr, lambda l: l.strip() == "};", p0)
    r["private_members"] = ("query.h", p0 + 1, p1, hdr)
    l0 = idx(cm, lambda l: "LINK_LIBRARIES AnaAlgorithmLib" in l)
    r["link_libraries"] = ("package_CMakeLists.txt", l0, l0 + 1, cm)
    return r


def expected_form(field, line):
    if field in ("body_includes", "header_includes"):
        return f'#include "{line}"'
    if field == "instance_initialization":
        return f",{line}"
    return line


def check_rendered(files, blocks, backend="atlas", baseline=None):
    """blocks: list of (name, {field: [lines]}) that must be present (already de-duplicated by the caller).
    Returns list of problems."""
    problems = []
    if backend == "atlas":
        regs = regions_atlas(files)
    else:
        src = files["Analyzer.cc"].split("\n")
        a = next(i for i, l in enumerate(src) if l.strip() == "// extra headers")
        b = next(i for i, l in enumerate(src) if l.strip() == '#include "TTree.h"')
        regs = {"body_includes": ("Analyzer.cc", a + 1, b, src)}
    all_text = {n: t for n, t in files.items()}
    # total multiplicity of every (field, line text) over all blocks: a line requested n times must appear n times
    want_count = Counter()
    for name, fields in blocks:
        for field, lines in fields.items():
            for ln in lines:
                want_count[(field, ln)] += 1
    for (field, ln), n in want_count.items():
        if field not in regs:
            continue
        fname, lo, hi, flines = regs[field]
        region = flines[lo:hi]
        want = expected_form(field, ln).strip()
        if field == "link_libraries":
            body = region[0]
            body = body[body.index("AnaAlgorithmLib") + len("AnaAlgorithmLib"):]
            cnt = body.count(" " + ln + " ")
        else:
            cnt = sum(1 for l in region if l.strip() == want)
        if baseline is not None and field != "link_libraries":
            # lines the template / generated code itself puts into the region (e.g. a closing brace) do not count
            bregs = regions_atlas(baseline) if backend == "atlas" else None
            if bregs is not None:
                _, blo, bhi, bl = bregs[field]
                cnt -= sum(1 for l in bl[blo:bhi] if l.strip() == want)
        if cnt != n:
            problems.append(f"{field}: line {ln!r} appears {cnt} times in its region of {fname}, requested {n} times")
        elif len(ln) > 3:
            total = sum(t.count(ln) for t in all_text.values())
            if baseline is not None:
                total -= sum(t.count(ln) for t in baseline.values())
            # a line that is a substring of another requested line is counted there too
            total -= sum(m * other.count(ln) for (f2, other), m in want_count.items() if other != ln and ln in other)
            # the same text may be requested in several fields (an include in the source AND the header): each rendered
            # field accounts for its own occurrences
            elsewhere = sum(m for (f2, l2), m in want_count.items() if l2 == ln and f2 != field and f2 in regs)
            if total != cnt + elsewhere:
                problems.append(f"{field}: line {ln!r} also appears outside its region ({total} occurrences in the package)")
    # the lines of one block keep their order (they form a subsequence of the region)
    for name, fields in blocks:
        for field, lines in fields.items():
            if field not in regs or field == "link_libraries":
                continue
            fname, lo, hi, flines = regs[field]
            region = [l.strip() for l in flines[lo:hi]]
            pos = 0
            for ln in lines:
                want = expected_form(field, ln).strip()
                try:
                    pos = region.index(want, pos) + 1
                except ValueError:
                    problems.append(f"{field}: lines of block {name} are not all present in order (stuck at {ln!r})")
                    break
    return problems


# ------------------------------------------------------------------ cases
def block_md(name, fields):
    d = {"metadata_type": "inject_code", "name": name}
    d.update(fields)
    return d


def wrap(mds, positions):
    """Attach metadata dicts at chain positions: 0 = directly on the dataset, 1 = after an event-level Where."""
    src = "ds"
    for md, p in zip(mds, positions):
        if p == 0:
            src = f"MetaData({src}, {md!r})"
    src = f"{src}.Where(lambda e: e.Jets('A').Count() >= 0)"
    for md, p in zip(mds, positions):
        if p == 1:
            src = f"MetaData({src}, {md!r})"
    # 2 = around the event inside the final lambda; 3 = around the event inside an element of an intermediate tuple that the
    # next step never looks at (the element is dropped by the tuple resolution - its declarations still count)
    ev_used, ev_dropped = "e", "e"
    for md, p in zip(mds, positions):
        if p == 2:
            ev_used = f"MetaData({ev_used}, {md!r})"
        if p == 3:
            ev_dropped = f"MetaData({ev_dropped}, {md!r})"
    if any(p == 3 for p in positions):
        return src + f".Select(lambda e: ({ev_dropped}.Jets('A'), {ev_used}.Jets('A'))).Select(lambda pr: pr[1].Count())"
    return src + f".Select(lambda e: {ev_used}.Jets('A').Count())"


def expected_of(mds):
    """Independent decision for a list of inject_code dicts in *processing order*: ('error', why) or ('ok', blocks)."""
    seen = {}
    order = []
    for md in mds:
        if md.get("metadata_type") != "inject_code":
            continue          # metadata of another kind travelling with the blocks (same name or not) is none of their business
        info = {k: v for k, v in md.items() if k != "metadata_type"}
        if not info:
            continue
        for k in info:
            if k != "name" and k not in FIELDS:
                return ("error", "unknown-field")
        if "name" not in info:
            return ("error", "no-name")
        name = info["name"]
        fields = {k: list(v) for k, v in info.items() if k != "name"}
        if name in seen:
            if seen[name] != {f: fields.get(f, []) for f in FIELDS}:
                return ("error", "conflict")
            continue
        seen[name] = {f: fields.get(f, []) for f in FIELDS}
        order.append((name, fields))
    return ("ok", order)


def run_case(args):
    cid, mds, positions, backend = args[:4]
    hist = args[4] if len(args) > 4 else ()
    q = wrap(mds, positions)
    if backend != "atlas":
        q = q.replace(".Jets('A')", ".Muons('A')")
    if hist and hist[0][0] == "again":
        # the SAME query object (one parsed ast) is translated two / three times, each time by a fresh executor - value() called
        # twice on one stream, or one query rendered for two backends: every translation lands the blocks, the last is judged
        from mc.core.translate import parse_query, translate_ast
        a = parse_query(q)
        for _ in range(hist[0][1]):
            pkg = translate_ast(a, backend, query_text=q)
    elif hist:
        # earlier queries on the SAME executor object: 'apply' = transformed but never written (a dry run / abandoned
        # translation), 'full' = translated completely, 'fail' = a translation that raised.  The package of the query
        # under test must hold its own blocks only, each exactly once.
        from mc.core.translate import _executor_class, parse_query, reset_library_state
        import tempfile
        import shutil
        from pathlib import Path
        reset_library_state()
        exe = _executor_class(backend)()
        for mode, pmds, ppos in hist:
            pq = wrap(pmds, ppos)
            try:
                a2 = exe.apply_ast_transformations(parse_query(pq))
                if mode != "apply":
                    d = Path(tempfile.mkdtemp(prefix="vt14_"))
                    try:
                        exe.write_cpp_files(a2, d)
                    finally:
                        shutil.rmtree(d, ignore_errors=True)
            except Exception:
                if mode != "fail":
                    raise RuntimeError(f"harness: prior query of the history does not translate: {pq}")
        pkg = translate(q, backend, executor=exe, fresh=False)
    else:
        pkg = translate(q, backend)
    # processing order: func_adl reports metadata outermost first
    pairs = list(zip(mds, positions))
    outer_first = [m for m, p in reversed(pairs) if p == 1] + [m for m, p in reversed(pairs) if p == 0] + [m for m, p in pairs if p in (2, 3)]
    exp = expected_of(outer_first)
    if not pkg.ok:
        if exp[0] == "error" and pkg.exc_type == "ValueError":
            return cid, "error-ok", None
        return cid, "bad", {"symptom": "spurious-error" if exp[0] == "ok" else "wrong-exception", "detail": f"{pkg.exc_type}: {pkg.exc_msg}"[:300], "query": q}
    if exp[0] == "error":
        return cid, "bad", {"symptom": "missing-error", "detail": exp[1], "query": q}
    base_q = wrap([], ())
    if backend != "atlas":
        base_q = base_q.replace("e.Jets('A')", "e.Muons('A')")
    base = translate(base_q, backend)
    probs = check_rendered(pkg.files, exp[1], backend, baseline=base.files if base.ok else None)
    # no unrendered directive may survive unless it was injected as data
    injected = "".join(l for _, fs in exp[1] for ls in fs.values() for l in ls)
    # nothing of an earlier query's blocks may appear in this package
    mine = {l for _, fs in exp[1] for ls in fs.values() for l in ls}
    for _mode, pmds, _pp in (h for h in hist if h[0] != "again"):
        for pm in pmds:
            for k, ls in pm.items():
                if k in FIELDS:
                    for l in ls:
                        if l not in mine:
                            for fn, txt in pkg.files.items():
                                if l in txt:
                                    probs.append(f"{k}: line '{l}' of a block of an EARLIER query appears in {fn}")
    for fn, txt in pkg.files.items():
        for tok in ("{{", "{%", "{#"):
            if tok in txt and tok not in injected:
                probs.append(f"unrendered template directive {tok} in {fn}")
    if probs:
        return cid, "bad", {"symptom": "bad-rendering", "detail": "; ".join(probs)[:500], "query": q}
    return cid, "ok", None


def build_cases(tier):
    cases = []
    cid = 0
    # one block, all subsets of fields, 1 or 2 lines per field
    for mask in range(1, 2 ** len(FIELDS)):
        for nlines in (1, 2):
            fields = {f: [mk_line(f"T{i}L{k}_") for k in range(nlines)] for i, f in enumerate(FIELDS) if mask >> i & 1}
            for pos in ((0,), (1,)):
                cases.append((cid, [block_md("blk", fields)], pos, "atlas"))
                cid += 1
    # special characters in every field
    for i, f in enumerate(FIELDS):
        for j, sp in enumerate(SPECIAL):
            if f == "link_libraries" and (" " in sp or "\t" in sp):
                continue
            cases.append((cid, [block_md("blk", {f: [mk_line(f"S{i}_{j}_", sp), mk_line(f"S{i}_{j}b_", sp)]})], (0,), "atlas"))
            cid += 1
    # repeated line texts: inside one block and across two differently named blocks (a closing brace, a repeated statement)
    for i, f in enumerate(FIELDS):
        if f == "link_libraries":
            continue
        rep1 = block_md("blk", {f: [f"R{i}_open {{", f"R{i}_a;", "}", f"R{i}_open2 {{", f"R{i}_a;", "}"]})
        cases.append((cid, [rep1], (0,), "atlas"))
        cid += 1
        two_a = block_md("n1", {f: [f"Q{i}_x {{", f"Q{i}_shared;", "}"]})
        two_b = block_md("n2", {f: [f"Q{i}_y {{", f"Q{i}_shared;", "}"]})
        for order in ((two_a, two_b), (two_b, two_a)):
            for pos in ((0, 0), (0, 1), (1, 0)):
                cases.append((cid, list(order), pos, "atlas"))
                cid += 1
    # history on one executor object: an earlier query (applied only / fully translated / failed) carried blocks
    for i, f in enumerate(FIELDS):
        prior = block_md("hz", {f: [mk_line(f"H{i}a_"), mk_line(f"H{i}b_")], "body_includes": [mk_line(f"H{i}inc_")]})
        prior_conflict = [prior, block_md("hz", {f: [mk_line(f"H{i}other_")]})]
        currents = {
            "none": [],
            "same-block": [prior],
            "same-name-other-content": [block_md("hz", {f: [mk_line(f"H{i}new_")]})],
            "other-block": [block_md("hy", {f: [mk_line(f"H{i}y_")]})],
        }
        for mode, pm in (("apply", [prior]), ("full", [prior]), ("fail", prior_conflict), ("apply-twice", [prior])):
            for cname, cur in currents.items():
                h = [(mode.split("-")[0], pm, (0,) * len(pm))] * (2 if mode == "apply-twice" else 1)
                cases.append((cid, cur, (0,) * len(cur), "atlas", tuple(h)))
                cid += 1
    # the same query object translated again (fresh executor each time)
    for i, f in enumerate(FIELDS):
        for times in (2, 3):
            cases.append((cid, [block_md("ag", {f: [mk_line(f"G{i}a_"), mk_line(f"G{i}b_")]})], (0,), "atlas", (("again", times),)))
            cid += 1
    cases.append((cid, [block_md("ag", {f: [mk_line(f"GA{i}_")] for i, f in enumerate(FIELDS)})], (0,), "atlas", (("again", 2),)))
    cid += 1
    for backend in ("cms_aod", "cms_miniaod"):
        cases.append((cid, [block_md("ag", {"body_includes": [mk_line("GC_a"), mk_line("GC_b")]})], (0,), backend, (("again", 2),)))
        cid += 1
    # CMS: body includes
    for backend in ("cms_aod", "cms_miniaod"):
        for j, sp in enumerate(["", "<vector>", "{{ x }}"]):
            cases.append((cid, [block_md("blk", {"body_includes": [mk_line(f"C{j}_", sp), mk_line(f"C{j}b_", sp)]})], (0,), backend))
            cid += 1
        # include paths that differ only in letter case, a repeated path, and the same path in two blocks
        cases.append((cid, [block_md("blk", {"body_includes": ["Pkg/Sub/interface/MET.h", "Pkg/Sub/interface/Met.h", "pkg/sub/interface/met.h"]})], (0,), backend))
        cid += 1
        cases.append((cid, [block_md("n1", {"body_includes": ["Pkg/A.h", "Pkg/a.h"]}), block_md("n2", {"body_includes": ["PKG/A.H", "Other.h"]})], (0, 1), backend))
        cid += 1
    # the same include path in a body_includes AND a header_includes list (one block / two blocks): each field keeps its line
    for backend in ("atlas", "cms_aod", "cms_miniaod"):
        cases.append((cid, [block_md("blk", {"body_includes": ["tools/First.h", "tools/Shared.h", "tools/Last.h"], "header_includes": ["tools/Decl.h", "tools/Shared.h"]})], (0,), backend))
        cid += 1
        cases.append((cid, [block_md("decl", {"header_includes": ["tools/Decl.h", "tools/Shared.h"]}), block_md("impl", {"body_includes": ["tools/First.h", "tools/Shared.h", "tools/Last.h"]})], (0, 0), backend))
        cid += 1
        cases.append((cid, [block_md("impl", {"body_includes": ["tools/Shared.h", "tools/Last.h"]}), block_md("decl", {"header_includes": ["tools/Shared.h"]})], (0, 1), backend))
        cid += 1
    # ATLAS: the same for both include fields
    for f in ("body_includes", "header_includes"):
        cases.append((cid, [block_md("blk", {f: ["Pkg/Sub/MET.h", "Pkg/Sub/Met.h", "pkg/sub/met.h"]})], (0,), "atlas"))
        cid += 1
    # placements inside lambdas: on the event of the final lambda (2), inside a tuple element that is later discarded (3)
    for backend in ("atlas", "cms_aod", "cms_miniaod"):
        b1 = block_md("inl", {"body_includes": ["tools/Inl.h"]} if backend != "atlas" else {"body_includes": ["tools/Inl.h"], "header_includes": ["tools/InlDecl.h"], "private_members": ["int m_inl;"], "link_libraries": ["InlLib"]})
        b2 = block_md("other", {"body_includes": ["tools/Other.h"]})
        b1x = block_md("inl", {"body_includes": ["tools/Different.h"]})
        for pos in ((2,), (3,)):
            cases.append((cid, [b1], pos, backend))
            cid += 1
        for pos in ((2, 3), (3, 2), (0, 3), (3, 0), (1, 3), (3, 3), (2, 2)):
            cases.append((cid, [b1, b2], pos, backend))
            cid += 1
            cases.append((cid, [b1, b1x], pos, backend))      # same name, different content: an error wherever the copies sit
            cid += 1
    # an inject_code block that shares its NAME with metadata of another kind (a tool's job script, its C++ helper): still one legal block
    for backend in ("atlas", "cms_aod", "cms_miniaod"):
        blk = block_md("vtx_tool", {"body_includes": ["tools/Vtx.h"]} if backend != "atlas" else {"body_includes": ["tools/Vtx.h"], "private_members": ["int m_vtx;"], "ctor_lines": ["m_vtx = 1;"], "link_libraries": ["VtxLib"]})
        others = [{"metadata_type": "add_cpp_function", "name": "vtx_tool", "include_files": [], "arguments": ["x"], "code": ["double result = x;"], "return_type": "double"}]
        if backend == "atlas":
            others.append({"metadata_type": "add_job_script", "name": "vtx_tool", "script": ["# vtx tool"], "depends_on": []})
        for other in others:
            for mds_, pos in (([blk, other], (0, 0)), ([other, blk], (0, 0)), ([blk, other], (0, 1)), ([other, blk], (0, 1)), ([blk, other], (1, 0)), ([blk, other, blk], (0, 0, 1))):
                cases.append((cid, mds_, pos, backend))
                cid += 1
    # several blocks: menu of relations, all orders, all placements
    def menu(k):
        f1 = FIELDS[k % len(FIELDS)]
        f2 = FIELDS[(k + 3) % len(FIELDS)]
        return {
            "A": block_md("n1", {f1: [f"A{k}a_", f"A{k}b_"], f2: [f"A{k}c_"]}),
            "A_same": block_md("n1", {f1: [f"A{k}a_", f"A{k}b_"], f2: [f"A{k}c_"]}),
            "A_diff": block_md("n1", {f1: [f"A{k}a_", f"A{k}x_"], f2: [f"A{k}c_"]}),
            "A_reordered": block_md("n1", {f1: [f"A{k}b_", f"A{k}a_"], f2: [f"A{k}c_"]}),
            "B": block_md("n2", {f1: [f"B{k}a_"], f2: [f"B{k}b_", f"B{k}c_"]}),
            "unknown": {"metadata_type": "inject_code", "name": "n3", "bogus_field": ["x"]},
            "empty": {"metadata_type": "inject_code"},
            "nameonly": block_md("n4", {}),
            "A_nameonly": block_md("n1", {}),                       # same name as A, no content: not identical to A
            "A_allempty": block_md("n1", {f1: [], f2: []}),         # same name as A, every field empty: not identical to A
            "unknown_empty": {"metadata_type": "inject_code", "name": "n5", "bogus_field": []},
        }
    # three blocks with an identical repeat around (or next to) a different block: the repeated block keeps its FIRST place
    for k in range(len(FIELDS)):
        m = menu(k)
        for combo in (("A", "B", "A_same"), ("A", "A_same", "B"), ("B", "A", "A_same"), ("A", "B", "A_reordered"), ("A", "B", "A_diff")):
            for pos in ((0, 0, 0), (0, 1, 0), (1, 0, 1)):
                cases.append((cid, [m[c] for c in combo], pos, "atlas"))
                cid += 1
    nblk = 2 if tier == "quick" else 3
    keys = list(menu(0).keys())
    for n in range(2, nblk + 1):
        for combo in itertools.product(keys, repeat=n):
            if n == 3 and tier != "quick" and sum(1 for c in combo if c.startswith("A")) == 0:
                continue
            for k in (range(len(FIELDS)) if n == 2 else (0, 4)):
                m = menu(k)
                for pos in itertools.product((0, 1), repeat=n):
                    cases.append((cid, [m[c] for c in combo], pos, "atlas"))
                    cid += 1
    return cases


def compile_probe(rep):
    "A block of valid C++ must still give a package that compiles and runs (C02's oracle on injected content)."
    from mc.core.pipeline import Case, run_standalone
    from mc.edm.events import small_domain
    md = block_md("real", {"body_includes": ["vector"], "header_includes": ["string"], "private_members": ["int m_x;", "std::string m_s;"],
                           "instance_initialization": ["m_x(3)", "m_s(\"a\")"], "ctor_lines": ["m_x += 1;"], "initialize_lines": ["m_x += 2;"],
                           "link_libraries": ["xAODJet"]})
    q = f"MetaData(ds, {md!r}).Select(lambda e: e.Jets('A').Count())"
    evs = small_domain()
    o = run_standalone(Case(0, "atlas", q), evs, [("s", [5])])
    if o.status != "ok" or not o.jobs or o.jobs[0].events[0].end != "ok":
        rep.violation("compile-probe", f"package with valid injected C++ does not build/run: {o.status} {o.errors}", {"query": q})
    return 1


def main(tier="quick"):
    rep = Report(PROP, tier)
    known = F.load(PROP)
    cases = build_cases(tier)
    res = par.pmap(run_case, cases, chunksize=20)
    stats = Counter()
    by_id = {c[0]: c for c in cases}
    for cid, st, rec in res:
        stats[st] += 1
        if rec is not None:
            f = F.match(known, rec)
            if f is not None:
                rep.known_finding(f["id"], f["what"], rec["query"][:150])
                continue
            rep.violation(f"case-{cid}", f"{rec['symptom']}: {rec['detail']} :: {rec['query'][:300]}", rec)
    n = len(cases) + compile_probe(rep)
    rep.set("states", len(cases))
    rep.set("transitions", sum(len(c[1]) for c in cases))   # block arrivals
    rep.set("traces_validated_against_impl", n)
    rep.set("counters", dict(stats))
    rep.sample({"blocks": cases[5][1], "positions": cases[5][2]})
    rep.sample({"blocks": cases[-1][1], "positions": cases[-1][2]})
    rep.assumptions += ["every injected line carries a unique tag, so occurrences can be counted by text",
                        "lines are compared up to the template's own indentation (leading/trailing blanks)"]
    return rep.finish(require={"traces_validated_against_impl": 500, })


if __name__ == "__main__":
    sys.exit(main(sys.argv[1] if len(sys.argv) > 1 else "quick"))
