"""C06 - event collections are fetched by the requested bank, type and backend idiom.

Product enumeration: every built-in collection of every backend x banks {A, B, absent} x position templates (alone,
as values, two different collections, the same collection twice with the same / different banks, nested inside another
collection's lambda, singleton as value and as sequence) - the same for metadata-declared collections (new name,
overriding a built-in, singleton, declared for another backend), malformed declarations (each required key missing,
unknown key, element_type/contains_collection mismatch) and malformed calls (0 / 2 arguments, non-string argument).
Oracle: the (container type, bank) requests logged by the model store / event, status checking on a missing bank,
token declarations (miniAOD), includes and link libraries in the rendered package, and values.
"""
import itertools
import re
import sys
from collections import Counter

from mc.checks.c01 import classify_event
from mc.core import findings as F
from mc.core.evidence import Report
from mc.core.pipeline import Case, execute
from mc.edm.events import ARCH, EI, SEC, Event

PROP = "C06"

# independent table: collection -> (container type the job must request, header that declares it, link library)
BUILTIN = {
    "atlas": {
        "Jets": ("xAOD::JetContainer", "xAODJet/JetContainer.h", "xAODJet"),
        "Tracks": ("xAOD::TrackParticleContainer", "xAODTracking/TrackParticleContainer.h", "xAODTracking"),
        "TruthParticles": ("xAOD::TruthParticleContainer", "xAODTruth/TruthParticleContainer.h", "xAODTruth"),
        "Electrons": ("xAOD::ElectronContainer", "xAODEgamma/ElectronContainer.h", "xAODEgamma"),
        "Muons": ("xAOD::MuonContainer", "xAODMuon/MuonContainer.h", "xAODMuon"),
        "MissingET": ("xAOD::MissingETContainer", "xAODMissingET/MissingETContainer.h", "xAODMissingET"),
    },
    "cms_aod": {
        "Tracks": ("reco::TrackCollection", "DataFormats/TrackReco/interface/Track.h", None),
        "TrackMuons": ("reco::TrackCollection", "DataFormats/TrackReco/interface/Track.h", None),
        "Muons": ("reco::MuonCollection", "DataFormats/MuonReco/interface/Muon.h", None),
        "Vertex": ("reco::VertexCollection", "DataFormats/VertexReco/interface/Vertex.h", None),
        "GsfElectrons": ("reco::GsfElectronCollection", "DataFormats/EgammaCandidates/interface/GsfElectron.h", None),
    },
    "cms_miniaod": {
        "Muons": ("pat::MuonCollection", "DataFormats/PatCandidates/interface/Muon.h", None),
        "Vertex": ("reco::VertexCollection", "DataFormats/VertexReco/interface/Vertex.h", None),
        "Electrons": ("pat::ElectronCollection", "DataFormats/PatCandidates/interface/Electron.h", None),
    },
}
SINGLETON = {"atlas": {"EventInfo": ("xAOD::EventInfo", "xAODEventInfo/EventInfo.h", "xAODEventInfo")}}
MD_TYPE = {"atlas": "add_atlas_event_collection_info", "cms_aod": "add_cms_aod_event_collection_info", "cms_miniaod": "add_cms_miniaod_event_collection_info"}
THING = {"atlas": ("xAOD::ThingContainer", "xAOD::Thing"), "cms_aod": ("reco::ThingCollection", "reco::Thing"), "cms_miniaod": ("pat::ThingCollection", "pat::Thing")}


def events():
    return [
        Event(0, (("A", (ARCH[2], ARCH[0])), ("B", (SEC[0],)), ("EI", (EI,)))),
        Event(1, (("A", ()), ("B", (SEC[1], SEC[0])), ("EI", (EI,)))),
        Event(2, (("A", (ARCH[1],)), ("B", ()), ("EI", (EI,)))),
    ]


def decl(backend, name, container, element=None, singleton=False, extra=None, drop=None):
    d = {"metadata_type": MD_TYPE[backend], "name": name, "include_files": [f"my/{name}.h"], "container_type": container, "contains_collection": not singleton}
    if element is not None:
        d["element_type"] = element
    if backend == "atlas":
        d["link_libraries"] = [f"lib{name}"]
    if extra:
        d.update(extra)
    if drop:
        d.pop(drop, None)
    return d


def build(backend):
    cases = []
    colls = BUILTIN[backend]

    def add(kind, q, uses, md=(), exact=True, expect="ok", headers=(), libs=()):
        cases.append({"kind": kind, "query": q, "uses": uses, "md": tuple(md), "exact": exact, "expect": expect, "headers": tuple(headers), "libs": tuple(libs)})
    names = list(colls)
    for x in names:
        cx, hx, lx = colls[x]
        for bank in ("A", "B"):
            add("alone-count", f"ds.Select(lambda e: e.{x}('{bank}').Count())", [(cx, bank)], headers=[hx], libs=[lx])
            add("alone-values", f"ds.Select(lambda e: e.{x}('{bank}').Select(lambda j: j.pt()))", [(cx, bank)], headers=[hx], libs=[lx])
            add("alone-rows", f"ds.SelectMany(lambda e: e.{x}('{bank}')).Select(lambda j: (j.pt(), j.eta()))", [(cx, bank)], headers=[hx], libs=[lx])
        add("absent-bank", f"ds.Select(lambda e: e.{x}('Z').Count())", [(cx, "Z")], expect="loud", headers=[hx], libs=[lx])
        add("absent-bank-values", f"ds.Select(lambda e: e.{x}('Z').Select(lambda j: j.pt()))", [(cx, "Z")], expect="loud", headers=[hx], libs=[lx])
        add("same-twice-same-bank", f"ds.Select(lambda e: (e.{x}('A').Count(), e.{x}('A').Select(lambda j: j.pt())))", [(cx, "A"), (cx, "A")], headers=[hx], libs=[lx])
        add("same-twice-diff-bank", f"ds.Select(lambda e: (e.{x}('A').Count(), e.{x}('B').Select(lambda j: j.pt())))", [(cx, "A"), (cx, "B")], headers=[hx], libs=[lx])
        add("where-then-select", f"ds.Where(lambda e: e.{x}('B').Count() >= 0).Select(lambda e: e.{x}('A').Count())", [(cx, "B"), (cx, "A")], headers=[hx], libs=[lx])
        # ONE textual use, bound to a lambda parameter and then used at two loop depths: the same call is translated once per
        # scope, the retrieval may run more than once, but it is still one use (one token on miniAOD)
        add("bound-used-inner-first", f"ds.Select(lambda e: e.{x}('A')).Select(lambda js: (Range(0, 2).Select(lambda i: js.Count() + i), js.Count()))", [(cx, "A")], exact=False, headers=[hx], libs=[lx])
        add("bound-used-outer-first", f"ds.Select(lambda e: e.{x}('A')).Select(lambda js: (js.Count(), Range(0, 2).Select(lambda i: js.Count() + i)))", [(cx, "A")], exact=False, headers=[hx], libs=[lx])
        add("bound-used-inner-twice", f"ds.Select(lambda e: e.{x}('B')).Select(lambda js: (Range(0, 2).Select(lambda i: js.Count() + i), Range(0, 3).Select(lambda i: js.Count())))", [(cx, "B")], exact=False, headers=[hx], libs=[lx])
        # an inject_code block that names the collection's own header (in its header_includes, its body_includes, or both): the
        # header the container needs is still requested exactly once by the source file
        for fld in (("header_includes",), ("body_includes",), ("header_includes", "body_includes")):
            blk = {"metadata_type": "inject_code", "name": "hdrblk"}
            for f_ in fld:
                blk[f_] = [hx]
            add("with-inject-block-naming-header:" + "+".join(fld), f"ds.Select(lambda e: e.{x}('A').Count())", [(cx, "A")], md=[blk], headers=[hx], libs=[lx])
        add("zero-args", f"ds.Select(lambda e: e.{x}().Count())", [], expect="refuse")
        add("two-args", f"ds.Select(lambda e: e.{x}('A', 'B').Count())", [], expect="refuse")
        add("nonstring-arg", f"ds.Select(lambda e: e.{x}(1).Count())", [], expect="refuse")
        add("computed-arg", f"ds.Select(lambda e: e.{x}('A' + 'B').Count())", [], expect="refuse")
    for x, y in itertools.permutations(names, 2):
        cx, hx, lx = colls[x]
        cy, hy, ly = colls[y]
        add("two-different", f"ds.Select(lambda e: (e.{x}('A').Count(), e.{y}('B').Select(lambda j: j.pt())))", [(cx, "A"), (cy, "B")], headers=[hx, hy], libs=[lx, ly])
        add("nested", f"ds.Select(lambda e: e.{x}('A').Select(lambda j: e.{y}('B').Count()))", [(cx, "A"), (cy, "B")], exact=False, headers=[hx, hy], libs=[lx, ly])
    for s, (cs, hs, ls) in SINGLETON.get(backend, {}).items():
        add("singleton-value", f"ds.Select(lambda e: e.{s}('EI').pt())", [(cs, "EI")], headers=[hs], libs=[ls])
        add("singleton-with-collection", f"ds.Select(lambda e: (e.{s}('EI').runNumber(), e.{names[0]}('A').Count()))", [(cs, "EI"), (colls[names[0]][0], "A")], headers=[hs], libs=[ls])
        add("singleton-absent", f"ds.Select(lambda e: e.{s}('Z').pt())", [(cs, "Z")], expect="loud")
        add("singleton-as-sequence", f"ds.Select(lambda e: e.{s}('EI').Count())", [], expect="refuse")
        add("singleton-select", f"ds.Select(lambda e: e.{s}('EI').Select(lambda x: x.pt()))", [], expect="refuse")
    # ---- metadata-declared collections
    ct, et = THING[backend]
    el = et + ("" if backend != "atlas" else "")
    good = decl(backend, "Things", ct, et)
    hdr = ["my/Things.h"]
    lib = ["libThings"] if backend == "atlas" else []
    add("md-new", "ds.Select(lambda e: e.Things('A').Select(lambda j: j.pt()))", [(ct, "A")], md=[good], headers=hdr, libs=lib)
    add("md-new-count-absent", "ds.Select(lambda e: e.Things('Z').Count())", [(ct, "Z")], md=[good], expect="loud", headers=hdr, libs=lib)
    add("md-new-twice", "ds.Select(lambda e: (e.Things('A').Count(), e.Things('B').Count()))", [(ct, "A"), (ct, "B")], md=[good], headers=hdr, libs=lib)
    # the same declaration attached more than once (two parts of a query each carry it): one collection, coded once per use
    add("md-declared-twice", "ds.Select(lambda e: e.Things('A').Select(lambda j: j.pt()))", [(ct, "A")], md=[good, dict(good)], headers=hdr, libs=lib)
    add("md-declared-three-times", "ds.Select(lambda e: (e.Things('A').Count(), e.Things('B').Count()))", [(ct, "A"), (ct, "B")], md=[good, dict(good), dict(good)], headers=hdr, libs=lib)
    first = names[0]
    over = decl(backend, first, ct, et)
    add("md-override-declared-twice", f"ds.Select(lambda e: e.{first}('A').Select(lambda j: j.pt()))", [(ct, "A")], md=[over, dict(over)], headers=[f"my/{first}.h"], libs=[f"lib{first}"] if backend == "atlas" else [])
    add("md-override-builtin", f"ds.Select(lambda e: e.{first}('A').Select(lambda j: j.pt()))", [(ct, "A")], md=[over], headers=[f"my/{first}.h"], libs=[f"lib{first}"] if backend == "atlas" else [])
    add("md-with-builtin", f"ds.Select(lambda e: (e.Things('A').Count(), e.{names[1]}('B').Count()))", [(ct, "A"), (colls[names[1]][0], "B")], md=[good],
        headers=hdr + [colls[names[1]][1]], libs=lib + [colls[names[1]][2]])
    # two (and three) metadata-declared collections in one query, every declaration order, each one used
    second = names[1]
    c2t = colls[second][0]
    e2t = {"atlas": c2t.replace("Container", ""), "cms_aod": c2t.replace("Collection", ""), "cms_miniaod": c2t.replace("Collection", "")}[backend]
    other = decl(backend, "Others", c2t, e2t)
    ohdr = ["my/Others.h"]
    olib = ["libOthers"] if backend == "atlas" else []
    for order in ((good, other), (other, good)):
        add("md-two-declared", "ds.Select(lambda e: (e.Things('A').Select(lambda j: j.pt()), e.Others('B').Select(lambda j: j.pt())))", [(ct, "A"), (c2t, "B")], md=list(order),
            headers=hdr + ohdr, libs=lib + olib)
        add("md-two-declared-first-only", "ds.Select(lambda e: e.Things('A').Count())", [(ct, "A")], md=list(order), headers=hdr, libs=lib)
        add("md-two-declared-second-only", "ds.Select(lambda e: e.Others('B').Count())", [(c2t, "B")], md=list(order), headers=ohdr, libs=olib)
        add("md-two-declared-nested", "ds.Select(lambda e: e.Things('A').Select(lambda j: e.Others('B').Count()))", [(ct, "A"), (c2t, "B")], md=list(order), exact=False,
            headers=hdr + ohdr, libs=lib + olib)
        add("md-override-and-declared", f"ds.Select(lambda e: (e.{first}('A').Count(), e.Others('B').Count()))", [(ct, "A"), (c2t, "B")], md=[over if o is good else o for o in order],
            headers=[f"my/{first}.h"] + ohdr, libs=([f"lib{first}"] if backend == "atlas" else []) + olib)
    if backend == "atlas":
        sing = decl(backend, "MyInfo", "xAOD::EventInfo", None, singleton=True)
        add("md-singleton", "ds.Select(lambda e: e.MyInfo('EI').pt())", [("xAOD::EventInfo", "EI")], md=[sing], headers=["my/MyInfo.h"], libs=["libMyInfo"])
        add("md-singleton-as-sequence", "ds.Select(lambda e: e.MyInfo('EI').Count())", [], md=[sing], expect="refuse")
    else:
        sing = decl(backend, "MyInfo", ct, None, singleton=True)
        add("md-singleton", "ds.Select(lambda e: e.MyInfo('A').pt())", None, md=[sing], expect="ok-any")
    for other in MD_TYPE:
        if other != backend:
            add("md-other-backend", "ds.Select(lambda e: e.Things('A').Count())", [], md=[decl(other, "Things", THING[other][0], THING[other][1])], expect="refuse")
            add("md-other-backend-unused", f"ds.Select(lambda e: e.{first}('A').Count())", [], md=[decl(other, "Things", THING[other][0], THING[other][1])], expect="refuse")
            # ... also when the same name is declared for THIS backend as well, before, after or around it
            fo = decl(other, "Things", THING[other][0], THING[other][1])
            for on, order in (("own-then-foreign", [good, fo]), ("foreign-then-own", [fo, good]), ("own-foreign-own", [good, fo, dict(good)])):
                add(f"md-other-backend-{on}", "ds.Select(lambda e: e.Things('A').Count())", [], md=order, expect="refuse")
    for drop in ("name", "include_files", "container_type", "contains_collection", "element_type"):
        add(f"md-missing-{drop}", "ds.Select(lambda e: e.Things('A').Count())", [], md=[decl(backend, "Things", ct, et, drop=drop)], expect="refuse")
    # a key that is only legal in ANOTHER backend's collection declaration
    foreign = {"link_libraries": ["libX"]} if backend != "atlas" else {"element_pointer": False}
    add("md-foreign-backend-key", "ds.Select(lambda e: e.Things('A').Count())", [], md=[decl(backend, "Things", ct, et, extra=foreign)], expect="refuse")
    # ---- the same collection NAME bound to different container types by successive queries on ONE executor object
    if backend != "cms_miniaod" or True:
        builtin_q = f"ds.Select(lambda e: e.{first}('A').Select(lambda j: j.pt()))"
        cfirst, hfirst, lfirst = colls[first]
        add("hist-builtin-then-override", builtin_q, [(ct, "A")], md=[over], headers=[f"my/{first}.h"], libs=[f"lib{first}"] if backend == "atlas" else [])
        cases[-1]["prior"] = [(builtin_q, [])]
        add("hist-override-then-builtin", builtin_q, [(cfirst, "A")], headers=[hfirst], libs=[lfirst])
        cases[-1]["prior"] = [(builtin_q, [over])]
        add("hist-two-declarations", "ds.Select(lambda e: e.Things('A').Select(lambda j: j.pt()))", [(c2t, "A")], md=[decl(backend, "Things", c2t, e2t)], headers=hdr, libs=lib)
        cases[-1]["prior"] = [("ds.Select(lambda e: e.Things('A').Select(lambda j: j.pt()))", [good])]
        add("hist-declared-then-undeclared", "ds.Select(lambda e: e.Things('A').Count())", [], expect="refuse")
        cases[-1]["prior"] = [("ds.Select(lambda e: e.Things('A').Count())", [good])]
    add("md-unknown-key", "ds.Select(lambda e: e.Things('A').Count())", [], md=[decl(backend, "Things", ct, et, extra={"bogus": 1})], expect="refuse")
    add("md-singleton-with-element", "ds.Select(lambda e: e.Things('A').Count())", [], md=[decl(backend, "Things", ct, et, singleton=True)], expect="refuse")
    add("md-zero-args", "ds.Select(lambda e: e.Things().Count())", [], md=[good], expect="refuse")
    add("md-nonstring-arg", "ds.Select(lambda e: e.Things(2.5).Count())", [], md=[good], expect="refuse")
    return cases


def includes_of(pkg, backend):
    "the #include lines of the translation unit: the source file and, on ATLAS, the generated header it includes first"
    src = pkg.files["query.cxx" if backend == "atlas" else "Analyzer.cc"]
    if backend == "atlas":
        src = pkg.files.get("query.h", "") + "\n" + src
    return re.findall(r'#include\s+"([^"]+)"', src)


def libs_of(pkg):
    cm = pkg.files.get("package_CMakeLists.txt", "")
    m = re.search(r"LINK_LIBRARIES AnaAlgorithmLib (.*)\)", cm)
    return m.group(1).split() if m else []


def post(outs, evs):
    stats = Counter()
    recs = []
    reqsets = set()
    for o in outs:
        c = o.case
        info = c.info
        base = {"kind": info["kind"], "query": c.text, "backend": c.backend, "md": [m.get("metadata_type") + ":" + str(m.get("name")) for m in info["md"]]}
        exp = info["expect"]
        if exp == "refuse":
            stats["must_refuse"] += 1
            if o.status != "refused":
                recs.append(dict(base, symptom="malformed-accepted", status=o.status))
            continue
        if o.status == "refused":
            recs.append(dict(base, symptom="refused", exc=f"{o.pkg.exc_type}: {o.pkg.exc_msg}"[:200]))
            continue
        if o.status == "compile_fail":
            recs.append(dict(base, symptom="compile-fail", error="; ".join(o.errors[:2])[:250]))
            continue
        stats["accepted"] += 1
        if exp == "ok-any":
            continue
        probs = []
        want = sorted(info["uses"])
        for j in o.jobs:
            if not j.events:
                continue
            er = j.events[0]
            got = sorted(er.reqs)
            stats["executions"] += 1
            reqsets.add(tuple(got))
            if exp == "loud":
                if er.end == "ok":
                    probs.append(f"event {er.event}: missing bank but the job reported success with rows {er.rows}")
                if er.rows:
                    probs.append(f"event {er.event}: a row was written although the retrieval failed")
                if not set(got) <= set(want) or not got:
                    probs.append(f"event {er.event}: requests {got}, expected a subset of {want}")
                continue
            if info["exact"]:
                if got != want:
                    probs.append(f"event {er.event}: requests {got} instead of {want}")
            else:
                if set(got) - set(want) or not set(got):
                    probs.append(f"event {er.event}: requests {got} not among {want}")
            r = classify_event(c.text, evs[er.event], er)
            if isinstance(r, dict):
                probs.append(f"event {er.event}: values differ from the reference: expected {str(r.get('expected'))[:80]} observed {str(r.get('observed'))[:80]} {r.get('observed_end')}")
            if c.backend == "cms_miniaod":
                cons = sorted(j.consumes)
                if cons != want:
                    probs.append(f"tokens declared for {cons}, one per use expected for {want}")
        # package level: headers and libraries exactly once
        inc = includes_of(o.pkg, c.backend) if o.pkg.files else None
        if inc is not None:
            # an inject_code block that itself lists the header under body_includes legitimately adds one more line of the same text
            extra = (1 if "body_includes" in info["kind"] else 0) + (1 if "header_includes" in info["kind"] and c.backend == "atlas" else 0)
            for h in info["headers"]:
                if not (1 <= inc.count(h) <= 1 + extra):
                    probs.append(f"header {h} included {inc.count(h)} times")
            if len(inc) != len(set(inc)) and not extra:
                probs.append(f"duplicate includes: {[h for h in set(inc) if inc.count(h) > 1]}")
            if c.backend == "atlas":
                libs = libs_of(o.pkg)
                for l in info["libs"]:
                    if l is not None and libs.count(l) != 1:
                        probs.append(f"link library {l} listed {libs.count(l)} times in {libs}")
        for p in probs[:3]:
            recs.append(dict(base, symptom="collection", problem=p))
    return stats, recs, reqsets


def main(tier="quick"):
    rep = Report(PROP, tier)
    known = F.load(PROP)
    evs = events()
    cases = []
    pid = 0
    for backend in ("atlas", "cms_aod", "cms_miniaod"):
        for c in build(backend):
            cases.append(Case(pid, backend, c["query"], c["md"], c))
            pid += 1
    res = execute(cases, evs, chunk_size=50, post=post, keep_files=True)
    stats = Counter()
    recs = []
    reqsets = set()
    for s, r, rs in res:
        stats.update(s)
        recs += r
        reqsets |= rs
    for i, r in enumerate(sorted(recs, key=lambda r: (r["backend"], r["kind"], r["query"]))):
        f = F.match(known, r)
        if f is not None:
            rep.known_finding(f["id"], f["what"], r["query"][:130])
            continue
        rep.violation(f"{r['backend']}-{r['kind']}-{i}", f"{r['symptom']} [{r['backend']}] {r['kind']}: {r['query'][:200]} md={r['md']} :: " +
                      str({k: r[k] for k in ("problem", "exc", "error", "status") if k in r})[:300], r)
    rep.set("states", len(cases))
    rep.set("transitions", len(cases))
    rep.set("traces_validated_against_impl", stats["executions"] + stats["must_refuse"])
    rep.set("counters", dict(stats))
    rep.set("distinct_request_multisets", len(reqsets))
    rep.sample({"kind": cases[0].info["kind"], "query": cases[0].text})
    rep.sample({"kind": cases[-1].info["kind"], "query": cases[-1].text, "metadata": [dict(m) for m in cases[-1].metadata]})
    rep.assumptions += ["expected container type / header / link library per built-in collection come from an independent table written from the experiments' naming (xAOD<Pkg>/<X>Container.h, DataFormats/...)",
                        "a request nested inside another collection's lambda may be issued once or once per element: only the set of (type, bank) is compared there",
                        "ATLAS: ANA_CHECK returns a failure status; CMS: dereferencing an invalid handle throws (as the real frameworks do)"]
    return rep.finish(require={"traces_validated_against_impl": 500, "distinct_request_multisets": 10})


if __name__ == "__main__":
    sys.exit(main(sys.argv[1] if len(sys.argv) > 1 else "quick"))
