"""C17 - local docker execution runs the right image on the right files, or raises.

Product enumeration of file-list shapes x image choice x docker metadata placement x output directory x container
behaviour (k output chunks then success / success without result file / DockerException at the call, before the first
chunk or after chunk i for every i <= k) x process state (temp dir module initialised or not) x three backends, run
through the real LocalDataset.value() with a stand-in python_on_whales on sys.path; oracle = a spec table written from
the property statement.
"""
import itertools
import os
import shutil
import sys
import tempfile
from collections import Counter
from pathlib import Path

from mc.core import findings as F
from mc.core import par
from mc.core.evidence import Report
import mc.core.translate  # noqa: F401  (installs a NullHandler so the library's ERROR logs stay quiet)

PROP = "C17"
STANDIN = str(Path(__file__).resolve().parents[1] / "standin")

BACKENDS = {
    "atlas": ("func_adl_xAOD.atlas.xaod.local_dataset", "xAODDataset", "atlas/analysisbase:21.2.197", "Jets",
              [("func_adl_atlas_xaod_calibration_cache", "/xaod_calibration_cache")]),
    "cms_aod": ("func_adl_xAOD.cms.aod.local_dataset", "CMSRun1AODDataset", "cmsopendata/cmssw_5_3_32:conddb_20210705", "Muons", []),
    "cms_miniaod": ("func_adl_xAOD.cms.miniaod.local_dataset", "CMSRun2miniAODDataset", None, "Muons", []),
}

# legal file names a shell would split or expand: blanks, parentheses, '#', '&', '~', a non-ASCII letter
ODD_NAMES = ("run2 skim.root", "DAOD_PHYS.1234 (1).root", "donn\u00e9es.root", "a#b&c~.root")
FILE_SHAPES = ["one-path", "one-str", "two-same-dir", "two-diff-dir", "missing-alone", "missing-second", "empty", "three-same-dir-order",
               "symlink-into-subdir", "two-symlinks-different-subdirs", "symlink-and-plain", "odd-names", "odd-name-single",
               "nested-second", "nested-first", "nested-third", "parent-second"]
BEHAVIOURS = [("ok", k, None) for k in (0, 1, 2)] + [("no-result", 1, None), ("fail-at-call", 0, None)] + \
             [("fail", k, i) for k in (0, 1, 2) for i in range(0, k + 1)] + \
             [("fail-wr", k, (i, w)) for k in (0, 1, 2) for i in range(0, k + 1) for w in range(0, i + 1)] + \
             [("ok-big", 4, None), ("fail-big", 4, 4), ("fail-big", 4, 3), ("fail-wr-big", 4, (4, 0))]   # result file written before chunk w, failure at i


def one_case(case):
    """Runs in a forked child: returns (observations dict)."""
    backend, shape, image_mode, md_pos, outdir_mode, beh, tempdir_init = case[:7]
    prior = case[7] if len(case) > 7 else False
    if STANDIN not in sys.path:
        sys.path.insert(0, STANDIN)
    import importlib
    import python_on_whales
    modname, clsname, default_image, coll, cache = BACKENDS[backend]
    mod = importlib.import_module(modname)
    cls = getattr(mod, clsname)
    import inspect
    sig = inspect.signature(cls.__init__)
    default_image = f"{sig.parameters['docker_image'].default}:{sig.parameters['docker_tag'].default}"
    scratch = Path(tempfile.mkdtemp(prefix="vc17_"))
    created = []
    host_tmp = tempfile.gettempdir()
    real_mkdtemp = tempfile.mkdtemp

    def tracking_mkdtemp(*a, **kw):
        p = real_mkdtemp(*a, **kw)
        created.append(p)
        return p
    obs = {"case": list(map(str, case))}
    try:
        d1, d2 = scratch / "d1", scratch / "d2"
        d1.mkdir()
        d2.mkdir()
        for n in ("a.root", "b.root", "c.root") + ODD_NAMES:
            (d1 / n).write_text("x")
        (d2 / "z.root").write_text("x")
        (d1 / "sub").mkdir()
        (d1 / "sub" / "s.root").write_text("x")
        (d1 / "sub2").mkdir()
        (d1 / "sub2" / "t.root").write_text("x")
        os.symlink("sub/s.root", d1 / "latest.root")        # links that live in d1 and point into other directories
        os.symlink("sub2/t.root", d1 / "other.root")
        files = {
            "one-path": d1 / "a.root", "one-str": str(d1 / "a.root"), "two-same-dir": [d1 / "b.root", d1 / "a.root"],
            "two-diff-dir": [d1 / "a.root", d2 / "z.root"], "missing-alone": d1 / "nope.root", "missing-second": [d1 / "a.root", d1 / "nope.root"],
            "nested-second": [d1 / "a.root", d1 / "sub" / "s.root"], "nested-first": [d1 / "sub" / "s.root", d1 / "a.root"],
            "nested-third": [d1 / "a.root", d1 / "b.root", d1 / "sub" / "s.root"], "parent-second": [d1 / "sub" / "s.root", d1 / "sub" / ".." / "a.root"],
            "symlink-into-subdir": d1 / "latest.root", "two-symlinks-different-subdirs": [d1 / "latest.root", d1 / "other.root"],
            "symlink-and-plain": [d1 / "a.root", d1 / "latest.root"],
            "odd-names": [d1 / n for n in ODD_NAMES], "odd-name-single": d1 / ODD_NAMES[0],
            "empty": [], "three-same-dir-order": [str(d1 / "c.root"), str(d1 / "a.root"), str(d1 / "b.root")],
        }[shape]
        outdir = None
        if outdir_mode == "given":
            outdir = scratch / "out"
            outdir.mkdir()
        kw = {}
        if image_mode == "custom":
            kw = {"docker_image": "my/image", "docker_tag": "v9"}
        elif image_mode == "registry-port":
            kw = {"docker_image": "localhost:5000/exp/analysis", "docker_tag": "1.2.3"}
        elif image_mode == "tag-only":
            kw = {"docker_tag": "v2"}
        # a private temp root per case (cases run in parallel and the default output directory is the temp dir)
        private_tmp = scratch / "tmp"
        private_tmp.mkdir()
        os.environ["TMPDIR"] = str(private_tmp)
        tempfile.tempdir = None
        if tempdir_init:
            tempfile.gettempdir()
        python_on_whales.CALLS.clear()
        kind, k, fail_i = beh
        big = kind.endswith("-big")       # a chatty container: 50 000 characters per chunk
        if big:
            kind = kind[:-4]
        chunks = [("stdout" if i % 2 == 0 else "stderr", (f"chunk{i}\n" * (8000 if big else 1)).encode()) for i in range(k)]
        write_before = None
        if kind == "fail-wr":
            fail_i, write_before = fail_i

        def set_plan():
            python_on_whales.PLAN.update(chunks=chunks, fail_after=fail_i if kind in ("fail", "fail-wr") else None, fail_at_call=(kind == "fail-at-call"),
                                         write_result=(kind != "no-result"), nonce=f"{os.getpid()}", write_before=write_before)
        set_plan()
        if prior is True:
            # history: an earlier, successful execution into the same output directory
            python_on_whales.PLAN.update(chunks=[], fail_after=None, fail_at_call=False, write_result=True, nonce="PRIOR", write_before=None)
            pds = cls(d1 / "a.root", output_directory=outdir) if outdir is not None else cls(d1 / "a.root")
            pr = pds.Select(f"lambda e: e.{coll}('A').Count()").value()
            obs["prior_returned"] = [str(x) for x in pr]
            python_on_whales.CALLS.clear()
            set_plan()
        tempfile.mkdtemp = tracking_mkdtemp
        stage = "ctor"
        try:
            ds = cls(files, output_directory=outdir, **kw) if outdir is not None else cls(files, **kw)
            if prior in ("same-md", "same-nomd"):
                # history on the SAME dataset object: an earlier successful execution, with or without docker metadata
                stage = "prior"
                python_on_whales.PLAN.update(chunks=[], fail_after=None, fail_at_call=False, write_result=True, nonce="PRIOR", write_before=None)
                pq = ds.MetaData({"metadata_type": "docker", "image": "earlier/image:3"}) if prior == "same-md" else ds
                pr = pq.Select(f"lambda e: e.{coll}('A').Count()").value()
                obs["prior_returned"] = [str(x) for x in pr]
                obs["prior_image"] = python_on_whales.CALLS[-1]["image"] if python_on_whales.CALLS else None
                python_on_whales.CALLS.clear()
                set_plan()
            stage = "query"
            q = ds
            md = {"metadata_type": "docker", "image": "meta/image:7"}
            other = {"metadata_type": "docker", "image": "other/image:1"}
            # 'aba' / 'aab': three / four docker blocks with the wanted image at BOTH ends of the chain, so that it runs whichever end has
            # precedence (the property does not say which of several docker blocks wins)
            if md_pos in ("first", "aba", "aab"):
                q = q.MetaData(md)
            q = q.Where(f"lambda e: e.{coll}('A').Count() >= 0")
            if md_pos == "middle":
                q = q.MetaData(md)
            if md_pos == "aba":
                q = q.MetaData(other)
            if md_pos == "aab":
                q = q.MetaData(md)
            q = q.Select(f"lambda e: e.{coll}('A').Count()")
            if md_pos in ("last", "aba"):
                q = q.MetaData(md)
            if md_pos == "aab":
                q = q.MetaData(other).MetaData(md)
            stage = "value"
            r = q.value()
            obs["returned"] = [str(x) for x in r] if isinstance(r, (list, tuple)) else str(r)
            obs["returned_content"] = [Path(x).read_text() if Path(x).is_file() else None for x in r] if isinstance(r, (list, tuple)) else None
        except BaseException as e:  # noqa
            obs["exc_stage"] = stage
            obs["exc_type"] = type(e).__name__
            obs["exc_is_docker"] = isinstance(e, python_on_whales.exceptions.DockerException)
            obs["exc_msg"] = str(e)[:200]
        finally:
            tempfile.mkdtemp = real_mkdtemp
        obs["calls"] = list(python_on_whales.CALLS)
        op = Path(str(outdir) if outdir is not None else tempfile.gettempdir()) / "ANALYSIS.root"
        obs["outdir_result"] = op.read_text() if op.is_file() else None
        obs["leftover_tempdirs"] = [p for p in created if os.path.exists(p)]
        obs["expected_outdir"] = str(outdir) if outdir is not None else tempfile.gettempdir()
        obs["default_image"] = default_image
        obs["d1"] = str(d1)
        obs["nonce"] = f"{os.getpid()}"
    finally:
        tempfile.mkdtemp = real_mkdtemp
        shutil.rmtree(scratch, ignore_errors=True)
        for p in created:
            shutil.rmtree(p, ignore_errors=True)
    return obs


def judge(case, o):
    """Spec table from the property statement.  Returns list of problems."""
    backend, shape, image_mode, md_pos, outdir_mode, beh, tempdir_init = case[:7]
    probs = []
    kind, k, fail_i = beh
    if kind.endswith("-big"):
        kind = kind[:-4]
    cache = BACKENDS[backend][4]
    bad_files = shape in ("missing-alone", "missing-second", "empty", "two-diff-dir", "nested-second", "nested-first", "nested-third", "parent-second")
    if len(case) > 7 and case[7] == "same-md" and o.get("prior_image") not in (None, "earlier/image:3"):
        probs.append(f"the earlier query's docker metadata was not honoured: ran {o.get('prior_image')!r}")
    if o.get("leftover_tempdirs"):
        probs.append(f"temporary working directory left behind: {o['leftover_tempdirs']}")
    if bad_files:
        if "exc_type" not in o:
            probs.append("bad file set accepted")
        if o["calls"]:
            probs.append("a container was started although the file set is invalid")
        return probs
    # valid file set: exactly one container run with the right arguments
    if len(o["calls"]) != 1:
        probs.append(f"{len(o['calls'])} container runs instead of 1 ({o.get('exc_type')}: {o.get('exc_msg')} at {o.get('exc_stage')})")
        return probs
    c = o["calls"][0]
    want_image = "meta/image:7" if md_pos != "none" else {"custom": "my/image:v9", "registry-port": "localhost:5000/exp/analysis:1.2.3",
                                                          "tag-only": o["default_image"].rsplit(":", 1)[0] + ":v2"}.get(image_mode, o["default_image"])
    if c["image"] != want_image:
        probs.append(f"ran image {c['image']!r} instead of {want_image!r}")
    if c["command"] != ["/scripts/runner.sh"]:
        probs.append(f"command {c['command']}")
    vols = c["volumes"]
    pkg_dirs = {v[0] for v in vols if v[1].rstrip("/") in ("/scripts", "/results")}
    want_names = {"one-path": ["a.root"], "one-str": ["a.root"], "two-same-dir": ["b.root", "a.root"], "three-same-dir-order": ["c.root", "a.root", "b.root"],
                  "symlink-into-subdir": ["latest.root"], "two-symlinks-different-subdirs": ["latest.root", "other.root"], "symlink-and-plain": ["a.root", "latest.root"],
                  "odd-names": list(ODD_NAMES), "odd-name-single": [ODD_NAMES[0]]}[shape]

    def has(mount, mode=None, src=None):
        for v in vols:
            if v[1].rstrip("/") == mount and (mode is None or (len(v) > 2 and v[2] == mode)) and (src is None or v[0] == src):
                return True
        return False
    if not has("/scripts") or not has("/results", "rw") or len(pkg_dirs) != 1:
        probs.append(f"package not mounted at /scripts and (rw) /results: {vols}")
    if not has("/data", "ro", o["d1"]):
        probs.append(f"data directory not mounted read-only at /data: {vols}")
    for name, mp in cache:
        if not any(v[0] == name and v[1] == mp for v in vols):
            probs.append(f"cache volume {name}:{mp} missing: {vols}")
    if len(vols) != 3 + len(cache):
        probs.append(f"unexpected volume list {vols}")
    if not c["remove"] or not c["stream"]:
        probs.append(f"remove={c['remove']} stream={c['stream']}")
    if c.get("filelist") != "".join(f"/data/{n}\n" for n in want_names):
        probs.append(f"filelist.txt at container start was {c.get('filelist')!r}")
    if not c.get("runner_executable"):
        probs.append("runner.sh not present/executable in the mounted package")
    if kind in ("fail", "fail-at-call", "fail-wr"):
        if not o.get("exc_is_docker"):
            probs.append(f"container failure did not propagate (got {o.get('exc_type')}, returned {o.get('returned')})")
        if o.get("outdir_result") == f"RESULT {o['nonce']}\n":
            probs.append("the failed run's output was placed in the output directory")
        return probs
    if kind == "no-result":
        if "exc_type" not in o:
            probs.append(f"no result file was produced but a result was returned: {o.get('returned')}")
        return probs
    # success
    if "exc_type" in o:
        probs.append(f"raised {o['exc_type']}: {o['exc_msg']} (stage {o['exc_stage']}) although the container succeeded")
        return probs
    want_path = os.path.join(o["expected_outdir"], "ANALYSIS.root")
    if o["returned"] != [want_path]:
        probs.append(f"returned {o['returned']} instead of [{want_path}]")
    elif o["returned_content"] != [f"RESULT {o['nonce']}\n"]:
        probs.append(f"returned file does not hold this run's result: {o['returned_content']}")
    return probs


def run_case(case):
    # each case in a forked child: process-global state (tempfile.tempdir, stand-in plan) is owned per case
    from mc.checks.c07 import _in_child
    o = _in_child(lambda: one_case(case))
    return case, o, judge(case, o)


def main(tier="quick"):
    rep = Report(PROP, tier)
    known = F.load(PROP)
    sys.path.insert(0, STANDIN)
    tempfile.gettempdir()
    cases = []
    for backend in BACKENDS:
        for shape in FILE_SHAPES:
            for image_mode in ("default", "custom", "registry-port", "tag-only"):
                for md_pos in ("none", "first", "middle", "last", "aba", "aab"):
                    for outdir_mode in ("default", "given"):
                        for beh in BEHAVIOURS:
                            for tinit in (True, False):
                                if beh[0].endswith("-big") and (shape not in ("one-path", "two-same-dir") or image_mode != "default" or md_pos not in ("none", "last") or not tinit):
                                    continue      # chatty containers: crossed with the backends, two file shapes, metadata presence and the output directory
                                if md_pos in ("aba", "aab") and (beh != ("ok", 1, None) or not tinit or outdir_mode != "default" or image_mode != "default" or shape not in ("one-path", "two-same-dir")):
                                    continue      # several docker blocks: crossed with the backends only
                                if image_mode in ("registry-port", "tag-only") and (beh != ("ok", 1, None) or not tinit or outdir_mode != "default" or md_pos in ("first", "middle")):
                                    continue      # unusual image names: crossed with file shapes and metadata presence only
                                if tier == "quick":
                                    # the tempdir-state dimension only matters at construction; cross it with the rest on one behaviour
                                    if not tinit and beh != ("ok", 1, None):
                                        continue
                                    if shape in ("missing-alone", "missing-second", "empty", "nested-second", "nested-first", "nested-third", "parent-second",
                                                 "symlink-into-subdir", "two-symlinks-different-subdirs", "symlink-and-plain", "odd-names", "odd-name-single") and beh != ("ok", 1, None):
                                        continue
                                cases.append((backend, shape, image_mode, md_pos, outdir_mode, beh, tinit))
                                # the same case after an earlier successful execution into the same output directory
                                if tinit and shape in ("one-path", "two-same-dir") and image_mode == "default" and md_pos in ("none", "middle"):
                                    cases.append((backend, shape, image_mode, md_pos, outdir_mode, beh, tinit, True))
                                # ... and after an earlier execution on the very same dataset object (with / without docker metadata)
                                if tinit and shape in ("one-path", "two-same-dir") and md_pos in ("none", "last") and beh in (("ok", 1, None), ("fail", 1, 0)):
                                    for pm in ("same-md", "same-nomd"):
                                        cases.append((backend, shape, image_mode, md_pos, outdir_mode, beh, tinit, pm))
    res = par.pmap(run_case, cases, chunksize=8)
    stats = Counter()
    outcomes = set()
    n = 0
    for case, o, probs in res:
        stats["cases"] += 1
        stats["container_runs"] += len(o.get("calls", []))
        outcomes.add((o.get("exc_type"), len(o.get("calls", [])), bool(o.get("returned"))))
        for p in probs:
            n += 1
            rec = {"backend": case[0], "shape": case[1], "image_mode": case[2], "md_pos": case[3], "outdir": case[4], "behaviour": list(case[5]),
                   "tempdir_initialised": case[6], "after_prior_run": len(case) > 7, "problem": p, "exc_type": o.get("exc_type"), "exc_stage": o.get("exc_stage")}
            f = F.match(known, rec)
            if f is not None:
                rep.known_finding(f["id"], f["what"], str(case))
                continue
            rep.violation(f"case-{n}", f"{case}: {p}", rec)
    rep.set("states", stats["cases"])
    rep.set("transitions", stats["cases"] + sum(len(c[5]) for c in cases))
    rep.set("traces_validated_against_impl", stats["cases"])
    rep.set("counters", dict(stats))
    rep.set("distinct_outcomes", len(outcomes))
    rep.sample({"case": [str(x) for x in cases[0]]})
    rep.sample({"case": [str(x) for x in cases[-1]]})
    rep.assumptions += ["the stand-in python_on_whales mirrors only docker.run(image, command, volumes, remove, stream) -> generator of (stream, bytes) and "
                        "DockerException raised at the call or while iterating; the container's only effect is writing /results/ANALYSIS.root",
                        "CMSRun2miniAODDataset default image:tag is read from its constructor signature"]
    return rep.finish(require={"traces_validated_against_impl": 300, "distinct_outcomes": 4})


if __name__ == "__main__":
    sys.exit(main(sys.argv[1] if len(sys.argv) > 1 else "quick"))
