"""C12 - every documented math function is accepted and computes its namesake.

The finite table, completely: README's list, the keys of functions_to_replace, and the built-in abs / pow, each in five
contexts (bare column, f(x)+1, 2*f(x), f(x) > 0, argument of another function) on a grid of in-domain arguments.  The
reference value is computed *by name*: the C library function of that name (libm through ctypes; ln = log).
"""
import ctypes
import ctypes.util
import itertools
import math
import re
import sys
from collections import Counter

from mc.core import findings as F
from mc.core.evidence import Report
from mc.core.pipeline import Case, execute
from mc.cxx.build import parse_value
from mc.checks.c01 import classify_event
from mc.edm.events import Event, Obj
from mc.lang import qgen

PROP = "C12"

D = ctypes.c_double
I = ctypes.c_int
L = ctypes.c_long
_libm = ctypes.CDLL(ctypes.util.find_library("m") or "libm.so.6")

# name -> (argument kinds, libm symbol)      d = double, i = int
TABLE = {}
for n in ("sin cos tan acos asin atan sinh cosh tanh asinh acosh atanh exp log log10 exp2 expm1 log1p log2 sqrt cbrt erf erfc tgamma lgamma "
          "ceil floor trunc round rint nearbyint fabs").split():
    TABLE[n] = ("d", n)
TABLE["ln"] = ("d", "log")
TABLE["abs"] = ("d", "fabs")
TABLE["ilogb"] = ("d", "ilogb")
for n in "atan2 pow hypot fmod remainder copysign nextafter fdim fmax fmin".split():
    TABLE[n] = ("dd", n)
TABLE["nexttoward"] = ("dd", "nextafter")     # long double second argument: same value for double-representable targets
TABLE["ldexp"] = ("di", "ldexp")
TABLE["scalbn"] = ("di", "scalbn")
TABLE["scalbln"] = ("di", "scalbln")
TABLE["fma"] = ("ddd", "fma")
NOT_CALLABLE = {"remquo": "needs an int* output argument"}
NOT_COMPARABLE = {"nan": "takes a C string tag and returns NaN: acceptance and compilation are checked, there is no value to compare"}


def libm_fn(name):
    kinds, sym = TABLE[name]
    f = getattr(_libm, sym)
    f.restype = I if sym == "ilogb" else D
    f.argtypes = [D if k == "d" else (L if sym == "scalbln" else I) for k in kinds]

    def call(*a):
        if len(a) != len(kinds):
            raise TypeError(f"{name} takes {len(kinds)} arguments")
        r = f(*[float(x) if k == "d" else int(x) for x, k in zip(a, kinds)])
        return r
    return call


REF_ENV = {n: libm_fn(n) for n in TABLE}
REF_ENV["nan"] = lambda tag: float("nan")
REF_ENV["vmhalf"] = lambda x: x * 0.5


def documented_names():
    txt = open("/repo/README.md").read()
    m = re.search(r"Math functions are pulled from.*?:(.*)", txt)
    names = re.findall(r"`(\w+)`", m.group(1)) if m else []
    return [n for n in names if n != "cmath"]


def grid_events():
    objs = []
    for pt, eta in itertools.product((0.25, 0.75, 1.5, 2.5), (0.5, 1.5, 2.5)):
        objs.append(Obj(pt=pt, eta=eta, phi=0.25, nTrk=int(eta + 0.5), q=0.5))
    return [Event(i // 4, (("A", tuple(objs[i:i + 4])), ("B", ()))) for i in range(0, len(objs), 4)]


def call_text(name):
    kinds = TABLE[name][0]
    args = {"d": ["j.pt()"], "dd": ["j.pt()", "j.eta()"], "di": ["j.pt()", "j.nTrk()"], "ddd": ["j.pt()", "j.eta()", "0.5"]}[kinds]
    return f"{name}({', '.join(args)})"


CONTEXTS = {
    "bare": "{f}",
    "plus": "({f} + 1)",
    "times": "(2 * {f})",
    "compare": "({f} > 0)",
    "nested": "sqrt(fabs({f}))",
    # a float-typed (32-bit) operand next to the function result, on either side: the result keeps the function's double value
    "float-left-times": "(j.q() * {f})",
    "float-left-plus": "(j.q() + {f})",
    "float-left-minus": "(j.q() - {f})",
    "float-right-times": "({f} * j.q())",
    # the argument is a value that only exists inside a block the translator has to open (First()): the call and the
    # arithmetic around it have to be emitted inside that block, at event level
    "first-arg": None,
    "first-arg-plus-left": None,
    "first-arg-times-left": None,
    "arg-arith": None,     # function applied to an arithmetic expression
    "int-args": None,      # every argument an int-typed expression: the result is still the function's (floating) value
    "int-args-plus": None,
    "int-args-sum": None,
}


def post(outs, events):
    stats = Counter()
    recs = []
    values = set()
    for o in outs:
        c = o.case
        info = {"function": c.info["function"], "context": c.info["context"], "query": c.text, "backend": c.backend}
        if o.status == "refused":
            stats["refused"] += 1
            recs.append(dict(info, symptom="refused", exc=f"{o.pkg.exc_type}: {o.pkg.exc_msg}"[:200]))
            continue
        if o.status == "compile_fail":
            stats["compile_fail"] += 1
            recs.append(dict(info, symptom="compile-fail", error="; ".join(o.errors[:2])[:250]))
            continue
        stats["accepted"] += 1
        # header: the rendered include area must name the header the function is declared in
        src = o.pkg.files.get(o.pkg.source_name, "") if o.pkg.files else ""
        first = None
        if c.info["context"] == "edge":
            # an argument on the edge of the function's domain: the job must go on and write what the function of that name
            # returns there (-inf, inf, nan), not die or write something else
            import math as _m
            want = c.info["edge_value"]
            for j in o.jobs:
                for er in j.events[:1]:
                    stats["executions"] += 1
                    vals = []
                    try:
                        vals = [float(parse_value(cell)) for r_ in er.rows for cell in r_[1]]
                    except Exception:
                        pass
                    same = er.end == "ok" and len(vals) > 0 and all((_m.isnan(v) and _m.isnan(want)) or v == want for v in vals)
                    if same:
                        stats["agree"] += 1
                    elif first is None:
                        first = {"symptom": "edge-of-domain", "observed_end": er.end, "observed": vals[:3], "expected": repr(want), "what": er.what[:120]}
            if first is not None:
                first.update(info)
                recs.append(first)
            continue
        for j in o.jobs:
            if not j.events:
                continue
            er = j.events[0]
            r = classify_event(c.text, events[er.event], er, extra_env=REF_ENV, tol=c.info.get("tol", 1e-14))
            stats["executions"] += 1
            if r is None:
                stats["agree"] += 1
                for row in er.rows:
                    values.add(tuple(row[1]))
            elif isinstance(r, tuple):
                stats["skipped"] += 1
            elif first is None:
                first = r
        if first is not None:
            first.update(info)
            recs.append(first)
    return stats, recs, len(values)


def header_check(pkg_files, source_name):
    "the translation unit - the source file and, on ATLAS, the query.h it includes first - names the header"
    src = pkg_files[source_name]
    if source_name == "query.cxx" and "#include <analysis/query.h>" in src:
        src = pkg_files.get("query.h", "") + src
    return '#include "cmath"' in src or "#include <cmath>" in src


def main(tier="quick"):
    rep = Report(PROP, tier)
    known = F.load(PROP)
    import func_adl_xAOD.common.cpp_functions as cf
    table_names = {k.split(".")[-1] for k in cf.functions_to_replace}
    names = sorted(set(documented_names()) | table_names | {"abs", "pow"})
    missing_ref = [n for n in names if n not in TABLE and n not in NOT_CALLABLE and n not in NOT_COMPARABLE]
    if missing_ref:
        raise RuntimeError(f"harness: no reference for documented functions {missing_ref}")
    events = grid_events()
    cases = []
    pid = 0
    backends = ("atlas",) if tier == "quick" else ("atlas", "cms_aod", "cms_miniaod")
    for backend in backends:
        md = tuple(qgen.method_metadata(qgen.ALPHA[backend]))
        coll = qgen.ALPHA[backend].primary
        for n in names:
            if n in NOT_CALLABLE:
                continue
            if n in NOT_COMPARABLE:
                q = f"ds.SelectMany(lambda e: e.{coll}('A')).Select(lambda j: nan('1'))"
                cases.append(Case(pid, backend, q, md, {"function": n, "context": "bare"}))
                pid += 1
                continue
            f = call_text(n)
            for ctx, tmpl in CONTEXTS.items():
                if ctx.startswith("int-args"):
                    kinds = TABLE[n][0]
                    if n in ("acos", "asin", "atanh"):
                        ia = ["(j.nTrk() - j.nTrk())"]      # stay inside the domain: 0
                    else:
                        ia = ["j.nTrk()", "2", "(j.nTrk() + 1)"][:len(kinds)]
                    call = f"{n}(" + ", ".join(ia) + ")"
                    if ctx == "int-args":
                        q = f"ds.SelectMany(lambda e: e.{coll}('A')).Select(lambda j: {call})"
                    elif ctx == "int-args-plus":
                        q = f"ds.SelectMany(lambda e: e.{coll}('A')).Select(lambda j: ({call} * 2 + 1))"
                    else:
                        q = f"ds.Select(lambda e: e.{coll}('A').Select(lambda j: {call}).Sum())"
                    cases.append(Case(pid, backend, q, md, {"function": n, "context": ctx}))
                    pid += 1
                    continue
                if ctx.startswith("first-arg"):
                    fj = f"e.{coll}('A').First()"
                    call = f.replace("j.", fj + ".")
                    expr = {"first-arg": call, "first-arg-plus-left": f"(1 + {call})", "first-arg-times-left": f"(2 * {call})"}[ctx]
                    cases.append(Case(pid, backend, f"ds.Select(lambda e: {expr})", md, {"function": n, "context": ctx}))
                    pid += 1
                    continue
                if ctx == "arg-arith":
                    kinds = TABLE[n][0]
                    expr = f"{n}(" + ", ".join(["(j.pt() + 0.25)"] + {"d": [], "dd": ["(j.eta() * 2)"], "di": ["(j.nTrk() + 1)"], "ddd": ["j.eta()", "0.5"]}[kinds]) + ")"
                else:
                    expr = tmpl.format(f=f)
                q = f"ds.SelectMany(lambda e: e.{coll}('A')).Select(lambda j: {expr})"
                cases.append(Case(pid, backend, q, md, {"function": n, "context": ctx}))
                pid += 1
    # ---- history: an EARLIER query on the same executor brought its own C++ function called like a documented one (legal: a
    # query may declare any function name); the later plain query must still get the documented function of that name
    for backend in backends:
        md = tuple(qgen.method_metadata(qgen.ALPHA[backend]))
        coll = qgen.ALPHA[backend].primary
        for n in names:
            if n in NOT_CALLABLE or n in NOT_COMPARABLE:
                continue
            nargs = len(TABLE[n][0])
            own = {"metadata_type": "add_cpp_function", "name": n, "include_files": [], "arguments": [f"a{i}" for i in range(nargs)],
                   "code": ["double result = 12345.5;"], "return_type": "double"}
            prior_q = f"ds.SelectMany(lambda e: e.{coll}('A')).Select(lambda j: {call_text(n)})"
            for ctx, tmpl in (("after-own-declaration", "{f}"), ("after-own-declaration-plus", "({f} + 1)")):
                q = f"ds.SelectMany(lambda e: e.{coll}('A')).Select(lambda j: {tmpl.format(f=call_text(n))})"
                cases.append(Case(pid, backend, q, md, {"function": n, "context": ctx, "prior": [(prior_q, list(md) + [own])]}))
                pid += 1
    # ---- arguments on the edge of a function's domain (the C library returns -inf / inf / nan there and goes on)
    for backend in ("atlas", "cms_aod", "cms_miniaod"):
        md = tuple(qgen.method_metadata(qgen.ALPHA[backend]))
        coll = qgen.ALPHA[backend].primary
        z = "(j.pt() * 0)"
        for fn_text, want in ((f"log({z})", float("-inf")), (f"sqrt({z} - 4)", float("nan")), (f"exp({z} + 1000)", float("inf")), (f"atanh({z} + 1)", float("inf")),
                              (f"pow({z}, -1)", float("inf")), (f"log({z} - 4)", float("nan")), (f"acos({z} - 4)", float("nan")), (f"fmod(j.pt(), {z})", float("nan")),
                              (f"log10({z})", float("-inf")), (f"sqrt(j.pt()) + log({z})", float("-inf"))):
            q = f"ds.SelectMany(lambda e: e.{coll}('A')).Select(lambda j: {fn_text})"
            cases.append(Case(pid, backend, q, md, {"function": fn_text.split("(")[0], "context": "edge", "edge_value": want}))
            pid += 1
    # ---- the query declares a C++ METHOD named like a documented function (and may call it): the plain call is still the documented function
    for backend in backends:
        md = tuple(qgen.method_metadata(qgen.ALPHA[backend]))
        coll = qgen.ALPHA[backend].primary
        arrow = "->" if backend == "atlas" else "."
        for n in ("pow", "fmod", "abs", "exp", "sqrt", "hypot"):
            meth = {"metadata_type": "add_cpp_function", "name": n, "include_files": [], "arguments": ["k"], "code": [f"double result = obj_m{arrow}pt() + k;"],
                    "method_object": "obj_m", "instance_object": "anything", "return_type": "double"}
            q = f"ds.SelectMany(lambda e: e.{coll}('A')).Select(lambda j: {call_text(n)})"
            cases.append(Case(pid, backend, q, md + (meth,), {"function": n, "context": "next-to-own-method"}))
            pid += 1
            q2 = f"ds.SelectMany(lambda e: e.{coll}('A')).Select(lambda j: ({call_text(n)} + j.{n}(1) * 0))"
            cases.append(Case(pid, backend, q2, md + (meth,), {"function": n, "context": "next-to-own-method-called"}))
            pid += 1
    # ---- float-typed (32-bit) and int-typed arguments only, no double among them: the function of that name promotes both to
    # double - the job must not end up with the float overload's 32-bit result
    for backend in backends:
        md = tuple(qgen.method_metadata(qgen.ALPHA[backend]))
        coll = qgen.ALPHA[backend].primary
        for n in names:
            if n in NOT_CALLABLE or n in NOT_COMPARABLE or len(TABLE[n][0]) < 2:
                continue
            if n == "nexttoward":
                continue      # nexttoward(float, long double) IS a float function: the next float after x, by definition of that name
            kinds = TABLE[n][0]
            forms = {"dd": ["{n}(j.q(), 3)", "{n}(j.q(), j.nTrk())", "{n}(3, j.q())", "{n}(j.q() * 3, j.nTrk() + 1)"], "di": ["{n}(j.q(), 3)", "{n}(j.q() * 3, j.nTrk())"],
                     "ddd": ["{n}(j.q(), 3, j.nTrk())", "{n}(j.q(), j.q() * 3, 1)"]}[kinds]
            for i, ftxt in enumerate(forms):
                call = ftxt.format(n=n)
                for ctx, expr in ((f"float-int-args:{i}", call), (f"float-int-args-plus:{i}", f"({call} * 2 + 1)")):
                    q = f"ds.SelectMany(lambda e: e.{coll}('A')).Select(lambda j: {expr})"
                    cases.append(Case(pid, backend, q, md, {"function": n, "context": ctx}))
                    pid += 1
    # ---- the function's result is an ARGUMENT of a plug-in call (a C++ function the query declares, the built-in DeltaR): the
    # plug-in passes rewrite that call after the math names have been resolved, and must leave the math call what it is
    for backend in backends:
        md = tuple(qgen.method_metadata(qgen.ALPHA[backend]))
        coll = qgen.ALPHA[backend].primary
        half = {"metadata_type": "add_cpp_function", "name": "vmhalf", "include_files": [], "arguments": ["x"], "code": ["double result = x * 0.5;"], "return_type": "double"}
        for n in names:
            if n in NOT_CALLABLE or n in NOT_COMPARABLE:
                continue
            f = call_text(n)
            for ctx, expr, emd, tol in (("arg-of-own-function", f"vmhalf({f})", (half,), 1e-14), ("arg-of-own-function-plus", f"(vmhalf({f} + 1) + {f})", (half,), 1e-14),
                                        ("arg-of-builtin-plugin", f"DeltaR(0.5, {f}, 0.5, 0.0)", (), 1e-9), ("arg-of-builtin-plugin-first", f"DeltaR({f}, j.phi(), 0.25, 0.5)", (), 1e-9)):
                q = f"ds.SelectMany(lambda e: e.{coll}('A')).Select(lambda j: {expr})"
                cases.append(Case(pid, backend, q, md + emd, {"function": n, "context": ctx, "tol": tol}))
                pid += 1
    res = execute(cases, events, chunk_size=40, post=post, keep_files=True)
    # header check needs the files: do it through a second cheap translation pass in-process (one per function)
    from mc.core.pipeline import translate_case
    nhdr = 0
    # the header must be pulled in on every backend, also next to injected code blocks that mention the same header in ANY field
    from mc.core.translate import translate
    for backend in ("atlas", "cms_aod", "cms_miniaod"):
        coll = qgen.ALPHA[backend].primary
        for fld in (None, "header_includes", "body_includes", "both"):
            blk = {"metadata_type": "inject_code", "name": "blk"}
            if fld in ("header_includes", "both"):
                blk["header_includes"] = ["cmath"]
            if fld in ("body_includes", "both"):
                blk["body_includes"] = ["cmath"]
            for fn in ("sqrt(j.pt())", "hypot(j.pt(), j.eta())", "abs(j.pt())"):
                q = f"ds.SelectMany(lambda e: e.{coll}('A')).Select(lambda j: {fn})"
                if fld is not None:
                    q = q.replace("ds.", f"MetaData(ds, {blk!r}).", 1)
                pkg = translate(q, backend)
                nhdr += 1
                if not pkg.ok:
                    rep.violation(f"hdr-{backend}-{fld}-{fn[:4]}", f"refused [{backend}] with an inject_code block ({fld}): {q} :: {pkg.exc_msg}", {"query": q, "backend": backend})
                elif not header_check(pkg.files, pkg.source_name):
                    rep.violation(f"hdr-{backend}-{fld}-{fn[:4]}", f"[{backend}] the rendered translation unit does not include cmath although it calls {fn} (inject_code block: {fld}): {q}",
                                  {"query": q, "backend": backend, "symptom": "missing-header"})
    # the job is BUILT by the package's own build files: no flag in them may license the compiler to change floating-point values
    for backend in ("atlas", "cms_aod", "cms_miniaod"):
        coll = qgen.ALPHA[backend].primary
        pkg = translate(f"ds.SelectMany(lambda e: e.{coll}('A')).Select(lambda j: pow(j.pt(), 1.5) + sqrt(j.eta()) / 3)", backend)
        nhdr += 1
        if pkg.ok:
            for fn, txt in pkg.files.items():
                if fn.endswith((".xml", ".txt", ".sh", ".py", ".cmake")):
                    for flag in re.findall(r"-Ofast|-ffast-math|-funsafe-math-optimizations|-ffinite-math-only|-fassociative-math|-freciprocal-math|-fno-math-errno|-ffp-contract=fast|-mrecip", txt):
                        rep.violation(f"flags-{backend}-{fn}", f"[{backend}] {fn} builds the job with {flag}: the compiler may then replace pow / sqrt / division by value-changing rewrites",
                                      {"query": "(build files)", "backend": backend, "symptom": "value-changing-build-flag", "file": fn, "flag": flag})
    for c in cases:
        if c.info["context"] != "bare" or c.backend != "atlas":
            continue
        pkg = translate_case(c)
        if pkg.ok:
            nhdr += 1
            if not header_check(pkg.files, pkg.source_name):
                rep.violation(f"hdr-{c.info['function']}", f"{c.info['function']}: the rendered source does not include <cmath>", {"query": c.text})
    stats = Counter()
    recs = []
    distinct = 0
    for s, r, d in res:
        stats.update(s)
        recs += r
        distinct += d
    for n, why in NOT_CALLABLE.items():
        rec = {"symptom": "not-callable", "function": n, "context": "any", "query": f"{n}(...)", "backend": "all", "why": why}
        f = F.match(known, rec)
        if f is not None:
            rep.known_finding(f["id"], f["what"], n)
        else:
            rep.violation(f"nc-{n}", f"documented function {n} cannot be called from a query: {why}", rec)
    for i, r in enumerate(sorted(recs, key=lambda r: (r["function"], r["context"], r["backend"]))):
        f = F.match(known, r)
        if f is not None:
            rep.known_finding(f["id"], f["what"], r["query"][:120])
            continue
        rep.violation(f"{r['backend']}-{r['function']}-{r['context']}", f"{r['symptom']} for {r['function']} in context {r['context']} [{r['backend']}]: {r['query']} :: " +
                      str({k: r[k] for k in ("exc", "error", "expected", "observed", "what") if k in r})[:300], r)
    rep.set("states", len(cases))
    rep.set("transitions", len(cases))
    rep.set("traces_validated_against_impl", stats["executions"] + nhdr)
    rep.set("functions", names)
    rep.set("counters", dict(stats))
    rep.set("distinct_values", distinct)
    rep.sample({"function": cases[0].info["function"], "context": cases[0].info["context"], "query": cases[0].text})
    rep.assumptions += ["reference value = the C library (libm) function of the same name called through ctypes (ln = log, abs = fabs, nexttoward = nextafter for double targets); tolerance 1e-14 relative",
                        "arguments: pt in {0.25,0.75,1.5,2.5} x eta in {0.5,1.5,2.5}; events where the reference is NaN or raises are skipped",
                        "a compile proves sufficiency of the include only; presence of <cmath> in the rendered include area is checked structurally"]
    return rep.finish(require={"traces_validated_against_impl": 500, "distinct_values": 50})


if __name__ == "__main__":
    sys.exit(main(sys.argv[1] if len(sys.argv) > 1 else "quick"))
