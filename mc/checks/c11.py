"""C11 - injected C++ functions are applied hygienically at every call site.

Specifications x call sites, exhaustively over small pools: every ordered pair of distinct parameter names from a pool
chosen to collide with identifiers in the code, with generated names and with the actual arguments' own text; code
templates that mention the parameters as whole words, next to longer identifiers that merely contain them, and
repeatedly; custom / default result names; value, collection and method forms; actual arguments from a pool (literals,
member calls whose text contains other parameter names, nested and repeated injected calls); call positions (column,
arithmetic, Where, nested in its own argument, twice in one expression); wrong arity and wrong call style.  Each spec
has a Python twin: the compiled job's values must equal it; arity / style errors must raise; the result variable,
block isolation and includes are checked structurally.
"""
import itertools
import re
import sys
from collections import Counter

from mc.checks.c01 import classify_event
from mc.core import findings as F
from mc.core.evidence import Report
from mc.core.pipeline import Case, execute
from mc.edm.events import small_domain
from mc.lang import qgen
from mc.lang.ref import DeltaR

PROP = "C11"
_ENVS = {}      # case pid -> python twins (filled before the workers are forked; lambdas cannot be pickled)
PARAMS = ["x", "y", "pt", "eta", "j", "i_obj", "result2", "obj"]

TEMPLATES = {
    # name -> (code lines with P1 / P2 placeholders, python twin)
    "plain": (["double RES = P1 * 8 + P2;"], lambda a, b: a * 8 + b),
    "neighbours": (["double P1_scale = 8;", "double xP1 = 0.5;", "double P2P2 = 1;", "double RES = P1 * P1_scale + P2 * P2P2 + xP1 - 0.5;"], lambda a, b: a * 8 + b),
    "repeated": (["double RES = P1 * 4 + P1 * 4 + P2 + P2 - P2;"], lambda a, b: a * 8 + b),
    "multi-line": (["double first = P1;", "double second = P2;", "first = first * 8;", "double RES = first + second;"], lambda a, b: a * 8 + b),
    "parenthesised-use": (["double RES = (P1) * 8 + (P2);"], lambda a, b: a * 8 + b),
    # no blanks anywhere: every parameter occurrence touches an operator character ( > < = & | * + ; ( ) ) on both sides
    "tight": (["double RES=P1*8+P2;", "if(P1>P2)RES=P2+P1*8;", "if(P1<=P2&&P2>=P1)RES=8*P1+P2;", "if(!(P1<P2)||P2>P1)RES=P1*8+P2;"], lambda a, b: a * 8 + b),
}
ARGS = ["1", "2.5", "j.pt()", "j.eta()", "j.y()", "j.nTrk()", "(j.pt() + 1)"]


def spec(name, params, code, result="result", rtype="double", coll=False, method_object=None, includes=("vector",)):
    d = {"metadata_type": "add_cpp_function", "name": name, "include_files": list(includes), "arguments": list(params), "code": list(code),
         "return_type": rtype}
    if result != "result":
        d["result_name"] = result
    if coll:
        d["return_is_collection"] = True
    if method_object:
        d["method_object"] = method_object
        d["instance_object"] = "anything"
    return d


def fill(lines, p1, p2, res):
    return [l.replace("P1", p1).replace("P2", p2).replace("RES", res) for l in lines]


def build(backend, tier):
    a = qgen.ALPHA[backend]
    S = f"e.{a.primary}('A')"
    arrow = "->" if backend == "atlas" else "."
    per = f"ds.SelectMany(lambda e: {S}).Select(lambda j: {{}})"
    cases = []

    def add(kind, q, md, env, expect="ok", structural=None, prior=None):
        cases.append({"kind": kind, "query": q, "md": tuple(md), "env": env, "expect": expect, "structural": structural})
        if prior:
            cases[-1]["prior"] = prior
    # ---- 2-parameter functions: all ordered pairs of distinct parameter names x templates x argument pairs
    pairs = list(itertools.permutations(PARAMS, 2))
    tmpl_names = list(TEMPLATES) if tier != "quick" else ["plain", "neighbours", "repeated", "tight"]
    arg_pairs = list(itertools.product(ARGS, repeat=2)) if tier != "quick" else [("j.eta()", "j.pt()"), ("j.y()", "2.5"), ("1", "j.eta()"), ("(j.pt() + 1)", "j.nTrk()")]
    for (p1, p2) in pairs:
        for tn in tmpl_names:
            lines, twin = TEMPLATES[tn]
            for res in (("result", "my_res") if tn == "plain" else ("result",)):
                if res in (p1, p2):
                    continue
                md = [spec("inj", [p1, p2], fill(lines, p1, p2, res), result=res)]
                for a1, a2 in arg_pairs:
                    add(f"fn2:{tn}:{p1},{p2}", per.format(f"inj({a1}, {a2})"), md, {"inj": twin},
                        structural={"fn": "inj", "result": res, "include": "vector"})
    # ---- call positions with a fixed hygienic-looking spec whose parameters collide with the arguments' text
    lines, twin = TEMPLATES["neighbours"]
    md = [spec("inj", ["pt", "eta"], fill(lines, "pt", "eta", "result")), spec("one", ["y"], ["double result = y + 100;"])]
    env = {"inj": twin, "one": lambda v: v + 100}
    positions = {
        "column": "inj(j.eta(), j.pt())",
        "arithmetic": "(inj(j.eta(), j.pt()) * 2 + 1)",
        "nested-own-arg": "inj(inj(j.eta(), j.pt()), j.y())",
        "nested-both-args": "inj(inj(j.eta(), 1), inj(2, j.pt()))",
        "twice": "(inj(j.eta(), j.pt()) + inj(j.pt(), j.eta()))",
        "other-injected-arg": "one(inj(j.y(), j.eta()))",
        "arg-of-other": "inj(one(j.eta()), one(j.pt()))",
        "in-conditional": "(inj(j.eta(), 1) if j.pt() > 1 else inj(1, j.eta()))",
        "in-compare": "(inj(j.eta(), j.pt()) > 3)",
        "tuple": "(inj(j.eta(), j.pt()), one(j.eta()))",
    }
    for k, e in positions.items():
        add(f"pos:{k}", per.format(e), md, env)
    add("pos:where", f"ds.Select(lambda e: {S}.Where(lambda j: inj(j.eta(), j.pt()) > 3).Count())", md, env)
    add("pos:where-select", f"ds.Select(lambda e: {S}.Where(lambda j: one(j.pt()) > 101).Select(lambda j: inj(j.eta(), j.pt())))", md, env)
    add("pos:sum", f"ds.Select(lambda e: {S}.Select(lambda j: inj(j.eta(), j.pt())).Sum())", md, env)
    add("pos:event-level", f"ds.Select(lambda e: one({S}.Count()))", md, env)
    add("pos:nested-lambda", f"ds.Select(lambda e: {S}.Select(lambda j: j.parts().Select(lambda p: inj(p.pt(), j.eta()))))", md, env)
    # ---- arguments that leave the insertion point deeper than the call site (First / index / aggregates), result used outside
    B = f"e.{a.secondary}('B')"
    deep = {
        "first-args-event": f"ds.Select(lambda e: inj({S}.First().eta(), {S}.First().pt()))",
        "first-args-tuple": f"ds.Select(lambda e: (inj({S}.First().eta(), {S}.First().pt()), {S}.Count()))",
        "first-args-two-collections": f"ds.Select(lambda e: inj({S}.First().eta(), {B}.First().pt()))",
        "first-arg-one": f"ds.Select(lambda e: one({S}.First().pt()))",
        "first-arg-one-dict": f"ds.Select(lambda e: {{'n': {S}.Count(), 'v': one({S}.First().pt())}})",
        "index-arg": f"ds.Select(lambda e: one({S}[0].pt()))",
        "where-first-arg": f"ds.Select(lambda e: one({S}.Where(lambda j: j.pt() > 1).First().pt()))",
        "aggregate-args": f"ds.Select(lambda e: inj({S}.Count(), {B}.Count()))",
        "sum-arg": f"ds.Select(lambda e: one({S}.Select(lambda j: j.pt()).Sum()))",
        "first-arg-in-event-where": f"ds.Where(lambda e: one({S}.First().pt()) > 100).Select(lambda e: {S}.Count())",
        "first-arg-in-arith": f"ds.Select(lambda e: one({S}.First().pt()) * 2 + 1)",
        "first-arg-nested-call": f"ds.Select(lambda e: one(one({S}.First().pt())))",
        "obj-first-arg": per.format("inj(j.parts().First().pt(), j.eta())"),
        "obj-first-arg-tags": per.format("one(j.tags().First())"),
        "obj-first-arg-tuple": per.format("(one(j.tags().First()), j.pt())"),
        "obj-count-arg": per.format("inj(j.tags().Count(), j.parts().Count())"),
        "vector-first-arg": f"ds.Select(lambda e: {S}.Select(lambda j: one(j.tags().First())))",
        "method-first-arg": None,
    }
    for k, q in deep.items():
        if q is not None:
            add(f"deep:{k}", q, md, env)
    # ---- a sequence whose elements are injected calls, bound to a lambda parameter and consumed by SEVERAL loops: the call
    # site is rendered once per consuming loop, each time with the loop variable of THAT loop as argument / receiver
    seq_elems = {"fn": ("one(j.pt())", md, env), "fn2": ("inj(j.eta(), j.pt())", md, env)}
    consumers = {
        "two-sums": "(xs.Where(lambda x: x > 1).Sum(), xs.Where(lambda x: x > 2).Sum())",
        "count-and-values": "(xs.Count(), xs.Select(lambda x: x * 2))",
        "sum-count-sum": "(xs.Sum(), xs.Count(), xs.Sum() * 2)",
        "values-then-sum": "(xs.Select(lambda x: x + 1), xs.Sum())",
    }
    for (en, (el, emd, eenv)), (cn, cons) in itertools.product(seq_elems.items(), consumers.items()):
        add(f"reused-seq:{en}:{cn}", f"ds.Select(lambda e: {S}.Select(lambda j: {el})).Select(lambda xs: {cons})", emd, eenv)
        # (a FILTERED sequence consumed twice, and a sequence iterated inside its own iteration, are C01's known finding
        # F-seq-variable-reused whatever the elements are: not repeated here)
    add("deep:builtin-deltar-first-args", f"ds.Select(lambda e: DeltaR({S}.First().eta(), {S}.First().phi(), {B}.First().eta(), {B}.First().phi()))", [], {"DeltaR": DeltaR})
    add("deep:builtin-deltar-first-args-tuple", f"ds.Select(lambda e: ({S}.Count(), DeltaR({S}.First().eta(), {S}.First().phi(), 0.5, 0.25)))", [], {"DeltaR": DeltaR})
    # ---- 1- and 3-parameter functions, result types
    for p in PARAMS:
        add(f"fn1:{p}", per.format(f"f1(j.eta())"), [spec("f1", [p], [f"double result = {p} * {p} + 1;"])], {"f1": lambda v: v * v + 1})
        add(f"fn1-int:{p}", per.format(f"f1(j.nTrk())"), [spec("f1", [p], [f"int result = {p} + 1;"], rtype="int")], {"f1": lambda v: v + 1})
    for ps in itertools.permutations(["x", "pt", "eta"], 3):
        add(f"fn3:{','.join(ps)}", per.format("f3(j.eta(), j.pt(), j.y())"), [spec("f3", ps, [f"double result = {ps[0]} * 100 + {ps[1]} * 10 + {ps[2]};"])],
            {"f3": lambda a_, b_, c_: a_ * 100 + b_ * 10 + c_})
    add("fn0", per.format("f0() + j.pt()"), [spec("f0", [], ["double result = 42;"])], {"f0": lambda: 42})
    add("bool-result", per.format("isbig(j.pt())"), [spec("isbig", ["x"], ["bool result = x > 1;"], rtype="bool")], {"isbig": lambda v: v > 1})
    # ---- collections
    cmd = [spec("pair", ["pt", "eta"], ["std::vector<double> result;", "result.push_back(pt);", "result.push_back(eta);"], coll=True)]
    from mc.lang.ref import Seq
    cenv = {"pair": lambda u, v: Seq(lambda: iter([float(u), float(v)]))}
    add("coll:column", f"ds.Select(lambda e: {S}.Select(lambda j: pair(j.eta(), j.pt()).Select(lambda v: v * 2)))", cmd, cenv)
    add("coll:count", per.format("pair(j.eta(), j.pt()).Count()"), cmd, cenv)
    add("coll:sum", per.format("pair(j.eta(), j.pt()).Sum()"), cmd, cenv)
    add("coll:selectmany", f"ds.Select(lambda e: {S}.SelectMany(lambda j: pair(j.eta(), j.pt())))", cmd, cenv)
    add("coll:first", per.format("pair(j.eta(), j.pt()).First()"), cmd, cenv)
    add("coll:index", per.format("pair(j.eta(), j.pt())[1]"), cmd, cenv)
    add("coll:where", per.format("pair(j.eta(), j.pt()).Where(lambda v: v > 0).Count()"), cmd, cenv)
    # ---- a collection of POINTERS to objects (the declared element type carries const and the star)
    pcls = a.primary_cls
    if backend == "atlas":
        pcode = [f"std::vector<const {pcls}*> result;", "for (auto p : x->parts()) result.push_back(p);"]
    else:
        pcode = [f"std::vector<const {pcls}*> result;", "for (auto &p : x.parts()) result.push_back(&p);"]
    pmd = [spec("ptrparts", ["x"], pcode, rtype=f"const {pcls}*", coll=True)]
    penv = {"ptrparts": lambda o: o.parts()}
    add("coll-ptr:select", f"ds.Select(lambda e: {S}.Select(lambda j: ptrparts(j).Select(lambda p: p.pt())))", pmd, penv)
    add("coll-ptr:count", per.format("ptrparts(j).Count()"), pmd, penv)
    add("coll-ptr:first", per.format("ptrparts(j).First().pt()"), pmd, penv)
    add("coll-ptr:where-sum", per.format("ptrparts(j).Where(lambda p: p.pt() > 0.5).Select(lambda p: p.nTrk()).Sum()"), pmd, penv)
    # ---- methods
    mmd = [spec("scaled", ["eta"], [f"double result = obj_x{arrow}pt() * eta;"], method_object="obj_x")]
    menv = {}     # method twins live on the reference object: see extra methods below
    add("method:column", per.format("j.scaled(j.eta())"), mmd, {"__method__scaled": lambda self, v: self.pt() * v})
    add("method:literal-arg", per.format("j.scaled(2)"), mmd, {"__method__scaled": lambda self, v: self.pt() * v})
    add("method:in-where", f"ds.Select(lambda e: {S}.Where(lambda j: j.scaled(2) > 1).Count())", mmd, {"__method__scaled": lambda self, v: self.pt() * v})
    # methods with NO parameter (only the method object is bound), and with two
    m0 = [spec("twicept", [], [f"double result = obj_x{arrow}pt() * 2;"], method_object="obj_x")]
    add("method0:column", per.format("j.twicept()"), m0, {"__method__twicept": lambda self: self.pt() * 2})
    add("method0:in-arith", per.format("(j.twicept() + j.eta())"), m0, {"__method__twicept": lambda self: self.pt() * 2})
    add("method0:in-where", f"ds.Select(lambda e: {S}.Where(lambda j: j.twicept() > 1).Count())", m0, {"__method__twicept": lambda self: self.pt() * 2})
    add("method0:twice", per.format("(j.twicept(), j.twicept() * 2)"), m0, {"__method__twicept": lambda self: self.pt() * 2})
    add("method0:with-argument", per.format("j.twicept(1)"), m0, {}, expect="refuse")
    mm2 = [spec("lin", ["a", "b"], [f"double result = obj_x{arrow}pt() * a + b;"], method_object="obj_x")] + m0
    add("method2:column", per.format("j.lin(j.eta(), 2)"), mm2, {"__method__lin": lambda self, a_, b_: self.pt() * a_ + b_})
    add("method2:with-method0-argument", per.format("j.lin(j.twicept(), j.eta())"), mm2, {"__method__lin": lambda self, a_, b_: self.pt() * a_ + b_, "__method__twicept": lambda self: self.pt() * 2})
    # ---- a method is bound to its object whatever expression yields the object: First(), an index, a step fused by func_adl
    tw = {"__method__twicept": lambda self: self.pt() * 2, "__method__scaled": lambda self, v: self.pt() * v}
    for cn, cons in (("two-sums", "(xs.Where(lambda x: x > 1).Sum(), xs.Where(lambda x: x > 2).Sum())"), ("count-and-values", "(xs.Count(), xs.Select(lambda x: x * 2))"),
                     ("sum-count-sum", "(xs.Sum(), xs.Count(), xs.Sum() * 2)")):
        add(f"reused-seq:method0:{cn}", f"ds.Select(lambda e: {S}.Select(lambda j: j.twicept())).Select(lambda xs: {cons})", m0, tw)
        add(f"reused-seq:method1:{cn}", f"ds.Select(lambda e: {S}.Select(lambda j: j.scaled(j.eta()))).Select(lambda xs: {cons})", mmd, tw)
        if backend == "atlas":
            add(f"reused-seq:builtin-method:{cn}", f"ds.Select(lambda e: {S}.Select(lambda j: j.getAttributeFloat('w'))).Select(lambda xs: {cons})", [], {})
    recv = {
        "first": f"ds.Select(lambda e: {S}.First().twicept())",
        "first-with-arg": f"ds.Select(lambda e: {S}.First().scaled(2))",
        "first-then-select": f"ds.Select(lambda e: {S}.First()).Select(lambda j: j.twicept())",
        "first-then-select-arg": f"ds.Select(lambda e: {S}.First()).Select(lambda j: j.scaled(j.eta()))",
        "index0": f"ds.Select(lambda e: {S}[0].twicept())",
        "index1-with-arg": f"ds.Select(lambda e: {S}[1].scaled(2))",
        "where-first": f"ds.Select(lambda e: {S}.Where(lambda j: j.pt() > 1).First().twicept())",
        "tuple-with-count": f"ds.Select(lambda e: ({S}.Count(), {S}[0].twicept()))",
        "obj-parts-first": per.format("j.parts().First().twicept()"),
        "obj-parts-index-arg": per.format("j.parts()[0].scaled(j.eta())"),
        "in-arith": f"ds.Select(lambda e: {S}[0].twicept() * 2 + 1)",
        "in-where": f"ds.Where(lambda e: {S}.First().twicept() > 1).Select(lambda e: {S}.Count())",
    }
    for k, q in recv.items():
        add(f"receiver:{k}", q, mmd + m0, tw)
    # wrong arity / wrong call style stay errors on those receivers
    add("receiver:wrong-arity-index", f"ds.Select(lambda e: {S}[0].scaled())", mmd + m0, {}, expect="refuse")
    add("receiver:wrong-arity+-index", f"ds.Select(lambda e: {S}[0].scaled(1, 2))", mmd + m0, {}, expect="refuse")
    add("receiver:wrong-arity-parts-index", per.format("j.parts()[0].twicept(1)"), mmd + m0, {}, expect="refuse")
    add("receiver:wrong-arity-member-result", per.format("j.link().scaled(1, 2)") if a.has_nonnull else per.format("j.parts()[0].scaled(1, 2)"), mmd + m0, {}, expect="refuse")
    add("receiver:function-as-method-index", f"ds.Select(lambda e: {S}[0].inj(1, 2))", md, {}, expect="refuse")
    add("receiver:function-as-method-parts", per.format("j.parts()[0].one(1)"), md, {}, expect="refuse")
    if backend == "atlas":
        add("receiver:builtin-wrong-arity-index", f"ds.Select(lambda e: {S}[0].getAttributeFloat())", [], {}, expect="refuse")
        add("receiver:builtin-wrong-arity+-index", f"ds.Select(lambda e: {S}[0].getAttributeFloat('a', 'b'))", [], {}, expect="refuse")
        add("receiver:builtin-function-as-method", f"ds.Select(lambda e: {S}[0].DeltaR(1.0, 2.0, 3.0, 4.0))", [], {}, expect="refuse")
    if backend == "atlas":
        add("receiver:builtin-index", f"ds.Select(lambda e: {S}[0].getAttributeFloat('w'))", [], {})
        add("receiver:builtin-first-then-select", f"ds.Select(lambda e: {S}.First()).Select(lambda j: j.getAttributeFloat('w'))", [], {})
        add("receiver:builtin-vector-index", f"ds.Select(lambda e: {S}[0].getAttributeVectorFloat('x').Count())", [], {})
    # ---- a function the query supplies under the name of a documented math function: the SUPPLIED code is what a call means
    for mn in ("sin", "sqrt", "abs", "fabs", "floor", "exp"):
        add(f"own-math-name:{mn}", per.format(f"{mn}(j.eta())"), [spec(mn, ["x"], ["double result = x * 8 + 3;"])], {mn: lambda v: v * 8 + 3})
        add(f"own-math-name-arith:{mn}", per.format(f"({mn}(j.eta()) + cos(j.pt()) * 0)"), [spec(mn, ["x"], ["double result = x * 8 + 3;"])], {mn: lambda v: v * 8 + 3, "cos": lambda v: 1.0})
    for mn in ("hypot", "pow", "fmod", "atan2", "fmax"):
        add(f"own-math-name:{mn}", per.format(f"{mn}(j.eta(), j.pt())"), [spec(mn, ["x", "y"], ["double result = x * 8 + y;"])], {mn: lambda u, v: u * 8 + v})
    # ---- the function's include file next to an inject_code block that names the same file in another field
    hmd = [spec("inj", ["pt", "eta"], fill(lines, "pt", "eta", "result"), includes=("tools/InjHelper.h",))]
    for fld in ("header_includes", "body_includes"):
        blk = {"metadata_type": "inject_code", "name": "incblk", fld: ["tools/InjHelper.h"]}
        add(f"include-next-to-inject-block:{fld}", per.format("inj(j.eta(), j.pt())"), hmd + [blk], env, structural={"fn": "inj", "result": "result", "include": "tools/InjHelper.h"})
    add("include-own-header", per.format("inj(j.eta(), j.pt())"), hmd, env, structural={"fn": "inj", "result": "result", "include": "tools/InjHelper.h"})
    f0 = [spec("seven", [], ["double result = 7;"])]
    add("fn0:column", per.format("(seven() + j.pt())"), f0, {"seven": lambda: 7})
    add("method:as-function", per.format("scaled(j, 2)"), mmd, {}, expect="refuse")
    add("method:wrong-arity", per.format("j.scaled()"), mmd, {}, expect="refuse")
    add("method:wrong-arity+", per.format("j.scaled(1, 2)"), mmd, {}, expect="refuse")
    # ---- arity / style errors
    m2 = [spec("inj", ["x", "y"], ["double result = x + y;"])]
    add("fn:arity-", per.format("inj(j.pt())"), m2, {}, expect="refuse")
    add("fn:arity+", per.format("inj(j.pt(), 1, 2)"), m2, {}, expect="refuse")
    add("fn:arity0", per.format("inj()"), m2, {}, expect="refuse")
    add("fn:as-method", per.format("j.inj(1, 2)"), m2, {}, expect="refuse")
    # ---- built-ins
    add("builtin:DeltaR", f"ds.Select(lambda e: {S}.Select(lambda j: DeltaR(j.eta(), j.phi(), 0.5, 0.25)))", [], {"DeltaR": DeltaR})
    add("builtin:DeltaR-pairs", f"ds.Select(lambda e: {S}.Select(lambda j: e.{a.secondary}('B').Select(lambda k: DeltaR(j.eta(), j.phi(), k.eta(), k.phi()))))", [], {"DeltaR": DeltaR})
    # ---- history: an EARLIER query on the same executor object supplied code under the same name.  The call site of
    # the later query must get the code THIS query supplies (or the built-in, or a refusal if it supplies nothing).
    base_md_h = list(qgen.method_metadata(a))
    other_dr = spec("DeltaR", ["a", "b", "c", "d"], ["double result = a + b + c + d;"])
    sc_mul = spec("scale", ["x", "y"], ["double result = x * y;"])
    sc_add = spec("scale", ["x", "y"], ["double result = x + y + 64;"])
    for pkind, pq, pmd in (("ok", per.format("DeltaR(j.eta(), j.phi(), j.pt(), 1) + scale(j.pt(), 2)"), [other_dr, sc_add]),
                           ("fails", per.format("DeltaR(j.eta(), j.phi(), j.pt(), 1) + scale(j.pt(), 2) // 2"), [other_dr, sc_add])):
        pr = [(pq, base_md_h + pmd)]
        add(f"history:{pkind}:builtin-after-override", per.format("DeltaR(j.eta(), j.phi(), 0.5, 0.25)"), [], {}, prior=pr)
        add(f"history:{pkind}:own-after-other", per.format("scale(j.pt(), 2)"), [sc_mul], {"scale": lambda x, y: x * y}, prior=pr)
        add(f"history:{pkind}:undeclared-after-declared", per.format("scale(j.pt(), 2)"), [], {}, expect="refuse", prior=pr)
        add(f"history:{pkind}:twice", per.format("scale(j.pt(), 2)"), [sc_mul], {"scale": lambda x, y: x * y}, prior=pr + [(per.format("scale(j.pt(), 2)"), base_md_h + [sc_mul])])
    add("builtin:DeltaR-arity", per.format("DeltaR(j.eta(), j.phi(), 1)"), [], {}, expect="refuse")
    if backend == "atlas":
        add("builtin:getAttributeFloat", per.format("j.getAttributeFloat('w')"), [], {})
        add("builtin:getAttributeFloat-arith", per.format("(j.getAttributeFloat('w') * 2 + j.pt())"), [], {})
        add("builtin:getAttributeVectorFloat", f"ds.Select(lambda e: {S}.Select(lambda j: j.getAttributeVectorFloat('x')))", [], {})
        add("builtin:getAttributeVectorFloat-count", per.format("j.getAttributeVectorFloat('x').Count()"), [], {})
        add("builtin:getAttributeFloat-arity", per.format("j.getAttributeFloat()"), [], {}, expect="refuse")
        add("builtin:getAttributeFloat-as-function", per.format("getAttributeFloat(j, 'w')"), [], {}, expect="refuse")
    if a.has_nonnull:
        add("builtin:isNonnull", f"ds.Select(lambda e: {S}.Select(lambda j: isNonnull(j.link())))", [], {})
        add("builtin:isNonnull-guard", f"ds.Select(lambda e: {S}.Where(lambda j: isNonnull(j.globalTrack())).Select(lambda j: j.globalTrack().pt()))", [], {})
        add("builtin:isNonnull-arity", per.format("isNonnull()"), [], {}, expect="refuse")
    return cases


def structural_problems(pkg, backend, st):
    "The result is delivered in a variable declared once outside the block; the code sits in its own block; includes are added."
    src = pkg.files["query.cxx" if backend == "atlas" else "Analyzer.cc"]
    probs = []
    m = re.findall(rf"^\s*double ({st['fn']}70\d{{4}});", src, re.M)
    if len(m) < 1:
        probs.append("no result variable declared for the call")
    for v in set(m):
        if len(re.findall(rf"^\s*double {v};", src, re.M)) != 1:
            probs.append(f"result variable {v} declared more than once")
        if not re.search(rf"{v} = {st['result']};\s*\n\s*\}}", src):
            probs.append(f"result variable {v} is not assigned from '{st['result']}' as the last statement of the block")
    tu = (pkg.files.get("query.h", "") + src) if backend == "atlas" else src      # query.cxx includes the generated query.h first
    if f'#include "{st["include"]}"' not in tu:
        probs.append(f"include file {st['include']} not added")
    return probs


def post(outs, events):
    from mc.lang import ref
    stats = Counter()
    recs = []
    vals = set()
    for o in outs:
        c = o.case
        info = c.info
        base = {"kind": info["kind"], "query": c.text, "backend": c.backend, "spec": [dict(m) for m in info["md"]][:2]}
        if info["expect"] == "refuse":
            stats["must_refuse"] += 1
            if o.status != "refused":
                recs.append(dict(base, symptom="bad-call-accepted", status=o.status))
            continue
        if o.status == "refused":
            recs.append(dict(base, symptom="refused", exc=f"{o.pkg.exc_type}: {o.pkg.exc_msg}"[:250]))
            continue
        if o.status == "compile_fail":
            recs.append(dict(base, symptom="compile-fail", error="; ".join(o.errors[:2])[:300]))
            continue
        stats["accepted"] += 1
        env = dict(_ENVS[c.pid])
        # method twins are attached to the reference object class for the duration of this evaluation
        meths = {k[len("__method__"):]: v for k, v in env.items() if k.startswith("__method__")}
        for k in list(env):
            if k.startswith("__method__"):
                del env[k]
        for mn, fn in meths.items():
            setattr(ref.RObj, mn, fn)
        try:
            first = None
            for j in o.jobs:
                if not j.events:
                    continue
                er = j.events[0]
                r = classify_event(c.text, events[er.event], er, extra_env=env)
                stats["executions"] += 1
                if r is None:
                    stats["agree"] += 1
                    for row in er.rows:
                        vals.add(tuple(row[1]))
                elif isinstance(r, tuple):
                    stats["skipped_" + r[1]] += 1
                elif first is None:
                    first = r
            if first is not None:
                first.update(base)
                recs.append(first)
        finally:
            for mn in meths:
                delattr(ref.RObj, mn)
        if info["structural"] and o.pkg.files:
            for p in structural_problems(o.pkg, c.backend, info["structural"]):
                recs.append(dict(base, symptom="structure", problem=p))
            stats["structural_checked"] += 1
    return stats, recs, len(vals)


def main(tier="quick"):
    rep = Report(PROP, tier)
    known = F.load(PROP)
    events = small_domain()[:15]
    cases = []
    pid = 0
    for backend in ("atlas", "cms_aod", "cms_miniaod"):
        base_md = tuple(qgen.method_metadata(qgen.ALPHA[backend]))
        for c in build(backend, tier if backend == "atlas" else "quick"):
            _ENVS[pid] = c.pop("env")
            cases.append(Case(pid, backend, c["query"], base_md + c["md"], c))
            pid += 1
    res = execute(cases, events, chunk_size=60, post=post, keep_files=True)
    stats = Counter()
    recs = []
    distinct = 0
    for s, r, d in res:
        stats.update(s)
        recs += r
        distinct += d
    for i, r in enumerate(sorted(recs, key=lambda r: (r["kind"], r["backend"], r["query"]))):
        f = F.match(known, r)
        if f is not None:
            rep.known_finding(f["id"], f["what"], r["query"][:130])
            continue
        rep.violation(f"{r['backend']}-{i}", f"{r['symptom']} [{r['backend']}] {r['kind']}: {r['query'][:200]} spec={str(r['spec'])[:200]} :: " +
                      str({k: r[k] for k in ("problem", "exc", "error", "status", "expected", "observed") if k in r})[:300], r)
    rep.set("states", len(cases))
    rep.set("transitions", len(cases))
    rep.set("traces_validated_against_impl", stats["executions"] + stats["must_refuse"] + stats["structural_checked"])
    rep.set("counters", dict(stats))
    rep.set("distinct_values", distinct)
    rep.sample({"kind": cases[0].info["kind"], "query": cases[0].text, "spec": dict(cases[0].info["md"][0])})
    rep.sample({"kind": cases[-1].info["kind"], "query": cases[-1].text})
    rep.assumptions += ["every specification has an executable Python twin; values (all dyadic) are compared exactly",
                        "a parameter that occurs after '.' or '->' in the code is a whole word too and is substituted by design: such templates are not generated"]
    return rep.finish(require={"traces_validated_against_impl": 1000, "distinct_values": 30})


if __name__ == "__main__":
    sys.exit(main(sys.argv[1] if len(sys.argv) > 1 else "quick"))
