"""C13 - arithmetic follows Python numerics on the declared value types.

The complete operator table: {+,-,*,/,%,**} x 25 ordered operand-kind pairs (int literal, int method, float method,
double method, bool) ; unary {+,-} x kinds and `not` on bool ; six comparisons x 25 pairs ; Sum/Min/Max/Aggregate with
int and double seeds over int/float/double/bool element sequences ; conditional with 25 arm-kind pairs ; thorough adds
all two-operator expressions (precedence / parenthesisation).  Each cell is translated, compiled and run on an event
grid of positive dyadic values; value must equal CPython's exactly and the booked column type must follow the rules.
"""
import itertools
import sys
from collections import Counter

from mc.core import findings as F
from mc.core.evidence import Report
from mc.core.pipeline import Case, execute
from mc.checks.c01 import classify_event
from mc.edm.events import Event, Obj
from mc.lang import qgen

PROP = "C13"

KINDS = {
    "intlit": ["2", "3"],
    "intm": ["j.nTrk()"],
    "floatm": ["j.q()"],
    "doublem": ["j.pt()"],
    "bool": ["j.isGood()", "(j.pt() > 1)"],
}
KIND_CLASS = {"intlit": "int", "intm": "int", "floatm": "float", "doublem": "double", "bool": "bool"}
BINOPS = ["+", "-", "*", "/", "%", "**"]
CMPS = ["<", "<=", ">", ">=", "==", "!="]


def grid_events():
    objs = []
    for pt, q, n, g in itertools.product((0.5, 2.5), (0.25, 3.0), (1, 2, 5), (True, False)):
        objs.append(Obj(pt=pt, eta=0.5, phi=0.25, nTrk=n, q=q, good=g, tags=(0.5, 2.0) if g else (1.5,)))
    evs = []
    for i in range(0, len(objs), 4):
        evs.append(Event(i // 4, (("A", tuple(objs[i:i + 4])), ("B", ()), ("EI", (objs[0],)))))
    evs.append(Event(len(evs), (("A", ()), ("B", ()), ("EI", (objs[0],)))))
    return evs


def width(cls):
    return {"bool": 0, "int": 1, "float": 2, "double": 3}[cls]


def expected_class(op, lc, rc):
    "Rule from the property statement -> (category, minimal floating width or None)."
    if op in ("/", "**"):
        return ("floating", 2)
    w = max(width(lc), width(rc))
    if w <= 1:
        return ("integral", None)
    return ("floating", w)


def classify_type(t: str):
    t = t.replace("std::vector<", "").replace(">", "").strip()
    if t == "bool":
        return ("bool", None)
    if t in ("int", "long", "long long", "unsigned", "unsigned long", "short", "char"):
        return ("integral", None)
    if t == "float":
        return ("floating", 2)
    if t == "double":
        return ("floating", 3)
    return ("other:" + t, None)


def type_ok(obs, exp) -> bool:
    if exp[0] == "any":
        return True
    if exp[0] != obs[0]:
        return False
    if exp[0] == "floating" and obs[1] < exp[1]:
        return False
    return True


def build_cells(tier, backend):
    coll = qgen.ALPHA[backend].primary
    cells = []   # (cell id, expr over j | event-level expr, level, expected type rule)
    for op in BINOPS:
        for lk, rk in itertools.product(KINDS, repeat=2):
            for l in KINDS[lk][:1 if lk != "intlit" else 2]:
                for r in KINDS[rk][:1 if rk != "intlit" else 2]:
                    if lk == "intlit" and rk == "intlit" and l == r:
                        continue
                    cells.append((f"bin:{op}:{lk}:{rk}", f"({l} {op} {r})", "obj", expected_class(op, KIND_CLASS[lk], KIND_CLASS[rk])))
    for op in ("+", "-"):
        for k in KINDS:
            cells.append((f"un:{op}:{k}", f"({op}{KINDS[k][0]})", "obj", ("integral", None) if KIND_CLASS[k] in ("int", "bool") else ("floating", width(KIND_CLASS[k]))))
    for b in KINDS["bool"]:
        cells.append(("un:not:bool", f"(not {b})", "obj", ("bool", None)))
    # a doubled unary operator: -(-x) is x, but not (not n) is the truth value of n (0 or 1), whatever n's kind
    for k in KINDS:
        x = KINDS[k][0]
        if k != "bool":       # unary minus on a boolean is the known finding F-unary-on-bool (cells un:-:bool, un:+:bool)
            cells.append((f"un2:neg-neg:{k}", f"(-(-{x}))", "obj", ("any", None)))
            cells.append((f"un2:neg-pos:{k}", f"(-(+{x}))", "obj", ("any", None)))
        cells.append((f"un2:not-not:{k}", f"(not (not {x}))", "obj", ("any", None)))
        cells.append((f"un2:not-not-plus:{k}", f"((not (not {x})) + 1)", "obj", ("any", None)))
        cells.append((f"un2:not-not-times:{k}", f"(j.nTrk() * (not (not {x})))", "obj", ("any", None)))
        cells.append((f"un2:not:{k}", f"(not {x})", "obj", ("any", None)))
    for op in CMPS:
        for lk, rk in itertools.product(KINDS, repeat=2):
            cells.append((f"cmp:{op}:{lk}:{rk}", f"({KINDS[lk][0]} {op} {KINDS[rk][-1]})", "obj", ("bool", None)))
    for lk, rk in itertools.product(KINDS, repeat=2):
        # the documented rule: a conditional is floating
        cells.append((f"if:{lk}:{rk}", f"({KINDS[lk][0]} if j.pt() > 1 else {KINDS[rk][-1]})", "obj", ("floating", 2)))
    # integer literals around the 32-bit edges keep their value (alone, negated, compared, and in a conditional)
    for v in (2147483647, 2147483648, 3000000000, 4294967295, 4294967296, -2147483648, -2147483649, -3000000000):
        cells.append((f"lit:int:{v}", f"({v})", "obj", ("integral", None)))
        cells.append((f"lit:cmp:{v}", f"(j.nTrk() < {v})", "obj", ("bool", None)))
        cells.append((f"lit:if:{v}", f"({v} if j.pt() > 1 else 1)", "obj", ("any", None)))
    # arithmetic with a 64-bit integer literal: '/' is real division there too, the others stay exact integers
    for big in (4294967296, 3000000000):
        cells.append((f"lit:div-by:{big}", f"(j.nTrk() / {big})", "obj", ("floating", 2)))
        cells.append((f"lit:div-of:{big}", f"({big - 1} / (j.nTrk() + 2))", "obj", ("floating", 2)))
        cells.append((f"lit:mul-div:{big}", f"((j.nTrk() * {big}) / 7)", "obj", ("floating", 2)))
        cells.append((f"lit:mul:{big}", f"(j.nTrk() * {big})", "obj", ("integral", None)))
        cells.append((f"lit:add:{big}", f"(j.nTrk() + {big})", "obj", ("integral", None)))
    for ek in KINDS:
        elem = KINDS[ek][0]
        seq = f"e.{coll}('A').Select(lambda j: {elem})"
        ec = KIND_CLASS[ek]
        summ = ("integral", None) if ec in ("int", "bool") else ("floating", width(ec))
        cells.append((f"agg:Sum:{ek}", f"{seq}.Sum()", "ev", summ))
        cells.append((f"agg:Max:{ek}", f"{seq}.Max()", "ev", ("any", None)))
        cells.append((f"agg:Min:{ek}", f"{seq}.Min()", "ev", ("any", None)))
        cells.append((f"agg:AggInt:{ek}", f"{seq}.Aggregate(0, lambda acc, v: acc + v)", "ev", summ))
        cells.append((f"agg:AggDbl:{ek}", f"{seq}.Aggregate(0.5, lambda acc, v: acc + v)", "ev", ("floating", 3)))
        cells.append((f"agg:AggMul:{ek}", f"{seq}.Aggregate(1, lambda acc, v: acc * v)", "ev", summ))
        cells.append((f"agg:Count:{ek}", f"{seq}.Count()", "ev", ("integral", None)))
        # the update lambda yields something WIDER than both the seed and the elements: the accumulator must hold it
        cells.append((f"agg:WideDiv:{ek}", f"{seq}.Aggregate(0, lambda acc, v: acc + v / 2)", "ev", ("floating", 2)))
        cells.append((f"agg:WideFactor:{ek}", f"{seq}.Aggregate(0, lambda acc, v: acc + v * 0.5)", "ev", ("floating", 2)))
        cells.append((f"agg:WideMulDiv:{ek}", f"{seq}.Aggregate(1, lambda acc, v: acc * (v + 1) / 4)", "ev", ("floating", 2)))
        # folds through a conditional on the accumulator (capped sum, clamp, hand-written max with an int seed)
        cells.append((f"agg:CappedSum:{ek}", f"{seq}.Aggregate(0, lambda acc, v: (acc if acc < 1000 else 1000) + v)", "ev", ("any", None)))
        cells.append((f"agg:FloorSum:{ek}", f"{seq}.Aggregate(0, lambda acc, v: (acc if acc > 0 else 0) + v)", "ev", ("any", None)))
        cells.append((f"agg:HandMax:{ek}", f"{seq}.Aggregate(0, lambda acc, v: acc if acc > v else v)", "ev", ("any", None)))
        # the initial value is itself a computed variable (a count, another aggregate's result, an int method): the
        # accumulator must still become as wide as what is folded in
        cnt = f"e.{coll}('A').Count()"
        cells.append((f"agg:CountSeed:{ek}", f"{seq}.Aggregate({cnt}, lambda acc, v: acc + v)", "ev", ("any", None)))
        cells.append((f"agg:SumSeed:{ek}", f"{seq}.Aggregate(e.{coll}('A').Select(lambda j: j.nTrk()).Sum(), lambda acc, v: acc + v)", "ev", ("any", None)))
        cells.append((f"agg:CountSeedMul:{ek}", f"{seq}.Aggregate({cnt}, lambda acc, v: acc * v + 1)", "ev", ("any", None)))
        cells.append((f"agg:IntExprSeed:{ek}", f"{seq}.Aggregate({cnt} + 1, lambda acc, v: acc + v)", "ev", ("any", None)))
        # the update does not use the accumulator arithmetically ("last value, or the default"): the accumulator is still at
        # least as wide as its seed - a fractional default survives an empty sequence
        cells.append((f"agg:LastOrHalf:{ek}", f"{seq}.Aggregate(0.5, lambda acc, v: v)", "ev", ("floating", 2)))
        cells.append((f"agg:LastOrHalfGuarded:{ek}", f"{seq}.Aggregate(0.5, lambda acc, v: (v if v > 1 else acc))", "ev", ("floating", 2)))
        cells.append((f"agg:LastOrMinusOne:{ek}", f"{seq}.Aggregate(-1, lambda acc, v: v)", "ev", summ if ec != "bool" else ("any", None)))
        cells.append((f"agg:CondAdd:{ek}", f"{seq}.Aggregate(1, lambda acc, v: acc + (v if v > 1 else 1))", "ev", ("any", None)))
    if True:
        # two-operator expressions: precedence / parenthesisation.  Quick: every operator pair on two operand-kind triples;
        # thorough: on all 27
        ops2 = ["+", "-", "*", "/", "%", "**"]
        triples = list(itertools.product(("intm", "doublem", "intlit"), repeat=3)) if tier != "quick" else [("intm", "intm", "intlit"), ("doublem", "intlit", "intm")]
        for o1, o2 in itertools.product(ops2, repeat=2):
            for a, b, c in triples:
                A, B, C = KINDS[a][0], KINDS[b][-1], KINDS[c][0]
                cells.append((f"bin2:{o1}:{o2}:{a}:{b}:{c}:L", f"(({A} {o1} {B}) {o2} {C})", "obj", ("any", None)))
                cells.append((f"bin2:{o1}:{o2}:{a}:{b}:{c}:R", f"({A} {o1} ({B} {o2} {C}))", "obj", ("any", None)))
                cells.append((f"bin2:{o1}:{o2}:{a}:{b}:{c}:N", f"({A} {o1} {B} {o2} {C})", "obj", ("any", None)))
    if True:
        for o in ["+", "-", "*", "/", "%", "**"]:
            for a in ("intm", "doublem"):
                cells.append((f"un-bin:{o}:{a}", f"(-{KINDS[a][0]} {o} 2)", "obj", ("any", None)))
                cells.append((f"bin-un:{o}:{a}", f"(2 {o} -{KINDS[a][0]})", "obj", ("any", None)))
    return cells


def post(outs, events):
    stats = Counter()
    recs = []
    values = set()
    for o in outs:
        c = o.case
        cid = c.info["cell"]
        if o.status == "refused":
            stats["refused"] += 1
            recs.append({"symptom": "refused", "cell": cid, "query": c.text, "backend": c.backend, "exc": f"{o.pkg.exc_type}: {o.pkg.exc_msg}"[:200]})
            continue
        if o.status == "compile_fail":
            stats["compile_fail"] += 1
            recs.append({"symptom": "compile-fail", "cell": cid, "query": c.text, "backend": c.backend, "error": "; ".join(o.errors[:2])[:250]})
            continue
        stats["accepted"] += 1
        first = None
        typ = None
        for j in o.jobs:
            if j.schema and j.schema[0][1]:
                typ = j.schema[0][1][0][1]
            if not j.events:
                continue
            er = j.events[0]
            r = classify_event(c.text, events[er.event], er, tol=c.info.get("tol", 0.0), int64=str(c.info.get("cell", "")).startswith("lit:"))
            stats["executions"] += 1
            if r is None:
                stats["agree"] += 1
                for row in er.rows:
                    values.add(tuple(row[1]))
            elif isinstance(r, tuple):
                stats["skipped"] += 1
            elif first is None or (first.get("explained_by") and not r.get("explained_by")):
                first = r
        if first is not None:
            first.update({"cell": cid, "query": c.text, "backend": c.backend})
            recs.append(first)
        exp = c.info["type_rule"]
        if typ is not None:
            obs = classify_type(typ)
            if not type_ok(obs, exp):
                recs.append({"symptom": "column-type", "cell": cid, "query": c.text, "backend": c.backend, "observed_type": typ, "expected_rule": list(exp)})
            stats["types_checked"] += 1
    return stats, recs, len(values)


def main(tier="quick"):
    rep = Report(PROP, tier)
    known = F.load(PROP)
    events = grid_events()
    cases = []
    pid = 0
    for backend in (("atlas",) if tier == "quick" else ("atlas", "cms_aod", "cms_miniaod")):
        md = tuple(qgen.method_metadata(qgen.ALPHA[backend]))
        coll = qgen.ALPHA[backend].primary
        for cid, expr, level, rule in build_cells(tier, backend):
            if level == "obj":
                q = f"ds.SelectMany(lambda e: e.{coll}('A')).Select(lambda j: {expr})"
            else:
                q = f"ds.Select(lambda e: {expr})"
            # float32 operands of '/', '**', '%' (and aggregates of them) may legitimately be combined in float precision:
            # those cells are compared with a float-epsilon tolerance, every other cell exactly
            tol = 4e-7 if ("floatm" in cid and (":/:" in cid or ":**:" in cid or ":%:" in cid or cid.startswith("bin2"))) else 0.0
            cases.append(Case(pid, backend, q, md, {"cell": cid, "type_rule": rule, "tol": tol}))
            pid += 1
            # the same cell after an earlier query of the process (on an executor object of its own) declared the value
            # methods with OTHER types: the operand kinds are those this query declares
            if cid.startswith("bin:") and (tier != "quick" or cid.split(":")[1] in ("/", "*")) and "j." in expr:
                swapped = tuple(dict(m, return_type={"int": "double", "float": "int", "bool": "double"}[m["return_type"]]) if m.get("return_type") in ("int", "float", "bool") else m for m in md)
                prior = [(f"ds.SelectMany(lambda e: e.{coll}('A')).Select(lambda j: (j.nTrk(), j.q(), j.isGood()))", swapped)]
                cases.append(Case(pid, backend, q, md, {"cell": "after-redeclared:" + cid, "type_rule": rule, "tol": tol, "prior": prior, "prior_executor": "other"}))
                pid += 1
    # a value method the BACKEND pre-declares (isPFMuon: bool), declared as an integer by the query: the operand kind is the
    # one the query declares (CMS backends; the ATLAS defaults are all object-valued)
    for backend in (("cms_aod",) if tier == "quick" else ("cms_aod", "cms_miniaod")):
        a = qgen.ALPHA[backend]
        md = tuple(qgen.method_metadata(a)) + ({"metadata_type": "add_method_type_info", "type_string": a.primary_cls, "method_name": "isPFMuon", "return_type": "int"},)
        for op, other, rule in (("/", "2", ("floating", 2)), ("*", "2", ("integral", None)), ("+", "j.nTrk()", ("integral", None)), ("/", "j.nTrk()", ("floating", 2)),
                                ("-", "1", ("integral", None)), ("*", "j.pt()", ("floating", 2)), ("**", "2", ("floating", 2))):
            for l, r in (("j.isPFMuon()", other), (other, "j.isPFMuon()")):
                if op in ("/", "**") and r == "j.isPFMuon()":
                    continue      # division by / power of a 0-or-1 value: the interesting operand is the left one
                q = f"ds.SelectMany(lambda e: e.{a.primary}('A')).Select(lambda j: ({l} {op} {r}))"
                cases.append(Case(pid, backend, q, md, {"cell": f"declared-over-default:{op}:{'l' if l.startswith('j.isPF') else 'r'}:{other}", "type_rule": rule, "tol": 0.0}))
                pid += 1
    res = execute(cases, events, chunk_size=60, post=post)
    stats = Counter()
    recs = []
    distinct = 0
    for s, r, d in res:
        stats.update(s)
        recs += r
        distinct += d
    for i, r in enumerate(sorted(recs, key=lambda r: (r["cell"], r["backend"]))):
        r["op"] = r["cell"].split(":")[1] if ":" in r["cell"] else ""
        r["cell_kind"] = r["cell"].split(":")[0]
        r["operand_kinds"] = r["cell"].split(":")[2:]
        f = F.match(known, r)
        if f is not None:
            rep.known_finding(f["id"], f["what"], r["query"][:120])
            continue
        rep.violation(f"{r['backend']}-{r['cell']}", f"{r['symptom']} in cell {r['cell']} [{r['backend']}]: {r['query']} :: " +
                      str({k: r[k] for k in ("exc", "error", "expected", "observed", "observed_type", "expected_rule", "what") if k in r})[:350], r)
    rep.set("states", len(cases))
    rep.set("transitions", len(cases))
    rep.set("traces_validated_against_impl", stats["executions"])
    rep.set("counters", dict(stats))
    rep.set("distinct_values", distinct)
    rep.sample({"cell": cases[0].info["cell"], "query": cases[0].text})
    rep.sample({"cell": cases[-1].info["cell"], "query": cases[-1].text})
    rep.assumptions += ["operands are positive dyadic values (no zero divisors, non-negative operands for %); a zero divisor (False) is skipped",
                        "a single not on a non-boolean operand is only compared by value (True == 1): its column type is not constrained",
                        "column type rule: '/' and '**' floating; int/bool-only arithmetic integral; otherwise floating at least as wide as the widest operand; "
                        "comparisons boolean; conditionals floating; Min/Max type not constrained (func_adl lowers them to a conditional)"]
    return rep.finish(require={"traces_validated_against_impl": 500, "distinct_values": 20})


if __name__ == "__main__":
    sys.exit(main(sys.argv[1] if len(sys.argv) > 1 else "quick"))
