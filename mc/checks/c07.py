"""C07 - translating a query is independent of every query handled before it.

Explicit-state BFS where the *real process* is the state machine: a state is an event history replayed in a fork of a
pristine interpreter that has imported the library but never translated.  Events: new(backend) creates an executor,
ext(i) attaches extended (docker) metadata the way LocalDataset does, tr(i, q) translates menu query q on live
executor i.  Invariant, checked on every transition: outcome(tr(i,q) | history) == outcome(q | pristine process), where
an outcome is the name-normalised package or the exception type and message.
"""
import hashlib
import os
import pickle
import struct
import sys
import types
from collections import Counter, deque
from dataclasses import dataclass, is_dataclass
from pathlib import Path

from mc.core import findings as F
from mc.core import par
from mc.core.evidence import Report, seed

PROP = "C07"

MT_INT = {"metadata_type": "add_method_type_info", "type_string": "{cls}", "method_name": "pt", "return_type": "int"}


def _menus():
    def md(d, cls):
        return repr({k: (v.replace("{cls}", cls) if isinstance(v, str) else v) for k, v in d.items()})
    menus = {}
    for backend, coll, cls in (("atlas", "Jets", "xAOD::Jet"), ("cms_aod", "Muons", "reco::Muon"), ("cms_miniaod", "Muons", "pat::Muon")):
        body = f".Select(lambda e: e.{coll}('A').Select(lambda j: j.pt()))"
        m = {
            "plain": ("ds" + body, True),
            "mt_int_ok": (f"MetaData(ds, {md(MT_INT, cls)})" + body, True),
            "mt_int_fail": (f"MetaData(ds, {md(MT_INT, cls)}).Select(lambda e: e.{coll}('A').Select(lambda j: j.pt() // 2))", False),
            "bad_md_after_good": (f"MetaData(MetaData(ds, {{'metadata_type': 'nonsense'}}), {md(MT_INT, cls)})" + body, False),
            "enum1": (f"MetaData(ds, {{'metadata_type': 'define_enum', 'namespace': 'NS', 'name': 'Color', 'values': ['Red', 'Blue']}})"
                      f".Select(lambda e: e.{coll}('A').Select(lambda j: j.color(NS.Color.Red)))", True),
            "enum2": (f"MetaData(ds, {{'metadata_type': 'define_enum', 'namespace': 'NS', 'name': 'Color', 'values': ['Green']}})"
                      f".Select(lambda e: e.{coll}('A').Select(lambda j: j.color(NS.Color.Green)))", True),
            "enum_undeclared": (f"ds.Select(lambda e: e.{coll}('A').Select(lambda j: j.color(NS.Color.Red)))", False),
            "inject": (f"MetaData(ds, {{'metadata_type': 'inject_code', 'name': 'blk', 'body_includes': ['my_header.h']}})" + body, True),
            "cppfn": ("MetaData(ds, {'metadata_type': 'add_cpp_function', 'name': 'DeltaR', 'include_files': [], 'arguments': ['a', 'b', 'c', 'd'], "
                      "'code': ['auto result = a + b + c + d;'], 'result_name': 'result', 'return_type': 'double'})"
                      f".Select(lambda e: e.{coll}('A').Select(lambda j: DeltaR(j.eta(), j.phi(), j.eta(), j.phi())))", True),
            "deltar": (f"ds.Select(lambda e: e.{coll}('A').Select(lambda j: DeltaR(j.eta(), j.phi(), j.eta(), j.phi())))", True),
            "docker": ("MetaData(ds, {'metadata_type': 'docker', 'image': 'other/image:1'})" + body, None),   # ok only with ext
            # a documented math function called plainly, and a query that brings its OWN function under that name
            # nested deeper than the interpreter's default recursion limit: refused (RecursionError) - with or without history
            "deep": (f"ds.Select(lambda e: e.{coll}('A').Select(lambda j: j.pt()" + " + 1" * 1200 + "))", False),
            "math_plain": (f"ds.Select(lambda e: e.{coll}('A').Select(lambda j: hypot(j.pt(), j.eta())))", True),
            "math_own": ("MetaData(ds, {'metadata_type': 'add_cpp_function', 'name': 'hypot', 'include_files': ['my/Hypot.h'], 'arguments': ['a', 'b'], "
                         "'code': ['double result = my_hypot(a, b);'], 'return_type': 'double'})"
                         f".Select(lambda e: e.{coll}('A').Select(lambda j: hypot(j.pt(), j.eta())))", True),
        }
        # declarations on the very types the backend pre-declares defaults for (the defaults must not be contaminated)
        dt, dcoll = {"atlas": ("xAOD::TruthParticle", "TruthParticles"), "cms_aod": ("reco::Muon", "Muons"), "cms_miniaod": ("pat::Muon", "Muons")}[backend]
        m["mt_on_default_type"] = (f"MetaData(ds, {{'metadata_type': 'add_method_type_info', 'type_string': '{dt}', 'method_name': 'pdgId', 'return_type': 'int'}})"
                                   f".Select(lambda e: e.{dcoll}('T').Select(lambda t: t.pdgId()))", True)
        m["undeclared_on_default_type"] = (f"ds.Select(lambda e: e.{dcoll}('T').Select(lambda t: t.pdgId()))", True)
        if backend == "atlas":
            m["defaults"] = ("ds.Select(lambda e: e.TruthParticles('T').Select(lambda t: t.prodVtx().x()))", True)
            # arithmetic between value types outside int/float/double (a declared unsigned, a 64-bit literal): refused - the
            # same way whatever arithmetic earlier queries of the process contained
            m["wide_declared"] = ("MetaData(ds, {'metadata_type': 'add_method_type_info', 'type_string': 'xAOD::Jet', 'method_name': 'nTrk', 'return_type': 'unsigned int'})"
                                  ".Select(lambda e: e.Jets('A').Select(lambda j: j.nTrk() * 4000000000))", "any")
            m["wide_literal"] = ("ds.Select(lambda e: e.Jets('A').Select(lambda j: j.pt() + 3000000000))", "any")
            m["getattr_ok"] = ("ds.Select(lambda e: e.Jets('A').Select(lambda j: j.getAttributeFloat('emf')))", True)
            m["getattr_fail"] = ("ds.Select(lambda e: e.Jets('A').Select(lambda j: j.getAttribute('x')))", False)
            m["jobscript"] = ("MetaData(ds, {'metadata_type': 'add_job_script', 'name': 'blk', 'script': ['# hello'], 'depends_on': []})" + body, True)
            m["coll_override"] = ("MetaData(ds, {'metadata_type': 'add_atlas_event_collection_info', 'name': 'Jets', 'include_files': ['x/Y.h'], "
                                  "'container_type': 'xAOD::ThingContainer', 'element_type': 'xAOD::Thing', 'contains_collection': True})" + body, True)
            m["coll_override2"] = ("MetaData(ds, {'metadata_type': 'add_atlas_event_collection_info', 'name': 'Jets', 'include_files': ['other/Z.h'], "
                                   "'container_type': 'xAOD::OtherContainer', 'element_type': 'xAOD::Other', 'contains_collection': True, 'link_libraries': ['libOther']})" + body, True)
        else:
            m["defaults"] = (f"ds.Select(lambda e: e.{coll}('A').Select(lambda m: m.globalTrack().pt()))", True)
        menus[backend] = m
    return menus


MENUS = _menus()
BACKENDS = ("atlas", "cms_aod", "cms_miniaod")


@dataclass
class DockerSpec:
    image: str


# ------------------------------------------------------------------ canonical snapshot of all library state
def _canon(v, seen, depth=0):
    import ast as _ast
    if depth > 12:
        return "<deep>"
    if v is None or isinstance(v, (bool, int, float, str, bytes)):
        return repr(v)
    if isinstance(v, (types.FunctionType, types.BuiltinFunctionType, types.MethodType)):
        return f"<fn {getattr(v, '__qualname__', '?')}>"
    if isinstance(v, type):
        return f"<class {v.__module__}.{v.__qualname__}>"
    if isinstance(v, types.ModuleType):
        return f"<module {v.__name__}>"
    if isinstance(v, _ast.AST):
        return "<ast>"
    vid = id(v)
    if vid in seen:
        return f"<ref {type(v).__name__}>"
    seen = seen | {vid}
    if isinstance(v, dict):
        return "{" + ",".join(sorted(f"{_canon(k, seen, depth + 1)}:{_canon(x, seen, depth + 1)}" for k, x in v.items())) + "}"
    if isinstance(v, (list, tuple)):
        return "[" + ",".join(_canon(x, seen, depth + 1) for x in v) + "]"
    if isinstance(v, (set, frozenset)):
        return "{" + ",".join(sorted(_canon(x, seen, depth + 1) for x in v)) + "}"
    mod = getattr(type(v), "__module__", "")
    if mod.startswith("func_adl_xAOD") or mod.startswith("mc.") or is_dataclass(v):
        d = getattr(v, "__dict__", None)
        if d is not None:
            return f"<{type(v).__name__} " + _canon(d, seen, depth + 1) + ">"
    return f"<{mod}.{type(v).__name__}>"


def snapshot(executors) -> str:
    import re
    items = []
    for modname in sorted(m for m in sys.modules if m.startswith("func_adl_xAOD")):
        mod = sys.modules[modname]
        for k in sorted(vars(mod)):
            if k.startswith("__"):
                continue
            v = vars(mod)[k]
            if modname.endswith("cpp_vars") and k == "unique_var_index":
                continue    # name counter: excluded (outputs are compared modulo numbering)
            if isinstance(v, types.ModuleType):
                continue
            if isinstance(v, types.FunctionType):
                if v.__module__ == modname and v.__defaults__:
                    items.append(f"{modname}.{k}.__defaults__={_canon(v.__defaults__, frozenset())}")
                continue
            if isinstance(v, type):
                if v.__module__ != modname:
                    continue
                for ak in sorted(vars(v)):
                    av = vars(v)[ak]
                    if ak.startswith("__") and ak not in ("__init__",):
                        continue
                    if isinstance(av, types.FunctionType):
                        if av.__defaults__:
                            items.append(f"{modname}.{k}.{ak}.__defaults__={_canon(av.__defaults__, frozenset())}")
                        continue
                    if isinstance(av, (property, staticmethod, classmethod)) or ak.startswith("_abc"):
                        continue
                    items.append(f"{modname}.{k}.{ak}={_canon(av, frozenset())}")
                continue
            items.append(f"{modname}.{k}={_canon(v, frozenset())}")
    for i, (b, exe) in enumerate(executors):
        items.append(f"exe{i}:{b}={_canon(vars(exe), frozenset())}")
    items.append(f"sys.recursionlimit={sys.getrecursionlimit()}")       # interpreter state the library could change
    text = "\n".join(items)
    text = re.sub(r"70\d{4}", "#", text)
    return text


# ------------------------------------------------------------------ applying events in a (forked) process
def apply_event(ev, executors):
    """Returns the outcome of the event: ('pkg', digest, files) | ('exc', type, msg) | ('ok',)."""
    from mc.core.translate import _executor_class, parse_query, translate_ast
    from mc.lang.norm import digest_files, normalise_text
    kind = ev[0]
    if kind == "new":
        executors.append((ev[1], _executor_class(ev[1])()))
        return ("ok",)
    if kind == "ext":
        executors[ev[1]][1].add_extended_md({"docker": DockerSpec("base/image:0")})
        return ("ok",)
    if kind == "apply":
        # a translation that is started and abandoned: the client-side passes run, the files are never written
        b, exe = executors[ev[1]]
        text = MENUS[b][ev[2]][0]
        try:
            exe.apply_ast_transformations(parse_query(text))
        except Exception:
            pass
        return ("ok",)
    if kind == "wrfail":
        # a translation whose files cannot be written: the client-side passes succeed, the write hits an I/O error
        # (the output directory does not exist)
        from pathlib import Path
        b, exe = executors[ev[1]]
        text = MENUS[b][ev[2]][0]
        try:
            a2 = exe.apply_ast_transformations(parse_query(text))
            exe.write_cpp_files(a2, Path("/nonexistent-vm-dir/never/there"))
        except Exception:
            pass
        return ("ok",)
    if kind in ("tr", "again"):
        b, exe = executors[ev[1]]
        text = MENUS[b][ev[2]][0]
        if kind == "tr":
            try:
                a = parse_query(text)
            except RecursionError:
                return ("exc", "RecursionError", "(while the caller builds the ast)")
            _AST_OBJECTS[(b, ev[2])] = a       # the very object handed to the library
        else:
            # the caller translates the SAME query object once more (ObjectStream.value() called twice)
            a = _AST_OBJECTS.get((b, ev[2]))
            if a is None:
                return ("exc", "RecursionError", "(while the caller builds the ast)")
        pkg = translate_ast(a, b, query_text=text, executor=exe, fresh=False)
        if pkg.ok:
            return ("pkg", digest_files(pkg.files), pkg.files)
        return ("exc", pkg.exc_type, normalise_text(pkg.exc_msg or ""))
    raise ValueError(ev)


APPLY_ONLY = ("mt_int_ok", "enum1", "jobscript", "inject", "cppfn", "coll_override", "mt_on_default_type")     # the menu queries that declare something
_AST_OBJECTS = {}     # (backend, menu query) -> the ast object most recently handed to the library in this process


def enabled_events(history, max_exec):
    evs = []
    backends = [e[1] for e in history if e[0] == "new"]
    if len(backends) < max_exec:
        evs += [("new", b) for b in BACKENDS]
    handed = []
    for e in history:
        if e[0] == "tr" and (backends[e[1]], e[2]) not in handed:
            handed.append((backends[e[1]], e[2]))
    for i, b in enumerate(backends):
        evs.append(("ext", i))
        evs += [("tr", i, q) for q in MENUS[b]]
        evs += [("again", i, q) for (hb, q) in handed if hb == b]
        evs += [("apply", i, q) for q in (APPLY_ONLY if os.environ.get("VERIF_C07_TIER") == "thorough" else APPLY_ONLY[:2]) if q in MENUS[b]]
        evs += [("wrfail", i, q) for q in (APPLY_ONLY if os.environ.get("VERIF_C07_TIER") == "thorough" else APPLY_ONLY[:1]) if q in MENUS[b]]
    return evs


def _in_child(fn):
    "Run fn() in a forked child and return its pickled result (the caller's process state is untouched)."
    r, w = os.pipe()
    pid = os.fork()
    if pid == 0:
        try:
            os.close(r)
            try:
                data = pickle.dumps(("ok", fn()))
            except BaseException as e:  # noqa
                import traceback
                data = pickle.dumps(("err", traceback.format_exc()))
            with os.fdopen(w, "wb") as fh:
                fh.write(data)
        finally:
            os._exit(0)
    os.close(w)
    with os.fdopen(r, "rb") as fh:
        data = fh.read()
    os.waitpid(pid, 0)
    st, val = pickle.loads(data)
    if st == "err":
        raise RuntimeError("harness: child failed:\n" + val)
    return val


def expand(args):
    """Replay `history` in a fresh fork of the pristine worker, then fork once more per enabled event.
    Returns (state_hash, [(event, outcome_without_files, state_hash_after)])."""
    history, max_exec, want_files = args

    def body():
        import func_adl_xAOD.common.cpp_vars as cv
        from mc.core.translate import NAME_BASE
        cv.unique_var_index = NAME_BASE
        executors = []
        for ev in history:
            apply_event(ev, executors)
        h = hashlib.sha256(snapshot(executors).encode()).hexdigest()[:20]
        succ = []
        for ev in enabled_events(history, max_exec):
            def one(ev=ev):
                out = apply_event(ev, executors)
                h2 = hashlib.sha256(snapshot(executors).encode()).hexdigest()[:20]
                if out[0] == "pkg" and not want_files:
                    out = out[:2]
                return out, h2
            out, h2 = _in_child(one)
            succ.append((ev, out, h2))
        return h, succ
    return _in_child(body)


def pristine_outcomes():
    "Outcome of every menu query as the first query of a fresh process (with and without ext)."
    res = {}
    for b in BACKENDS:
        for q in MENUS[b]:
            for ext in (False, True):
                hist = [("new", b)] + ([("ext", 0)] if ext else [])
                def body(hist=hist, q=q):
                    import func_adl_xAOD.common.cpp_vars as cv
                    from mc.core.translate import NAME_BASE
                    cv.unique_var_index = NAME_BASE
                    executors = []
                    for ev in hist:
                        apply_event(ev, executors)
                    return apply_event(("tr", 0, q), executors)
                res[(b, q, ext)] = _in_child(body)
    return res


def main(tier="quick"):
    rep = Report(PROP, tier)
    known = F.load(PROP)
    depth, max_exec, dedup_from = (4, 2, 99) if tier == "quick" else (5, 3, 3)
    os.environ["VERIF_C07_TIER"] = tier      # read by enabled_events in the forked explorers (quick: three abandoned-translation queries)
    # the pool workers import the library once and never translate themselves: every history runs in a fork of them
    import func_adl_xAOD.atlas.xaod.executor  # noqa
    import func_adl_xAOD.cms.aod.executor  # noqa
    import func_adl_xAOD.cms.miniaod.executor  # noqa
    import tempfile
    tempfile.gettempdir()
    base = pristine_outcomes()
    # sanity of the menu itself (a vacuous menu would make the check meaningless)
    for (b, q, ext), out in base.items():
        want = MENUS[b][q][1]
        if want is None:
            want = ext
        if want == "any":       # accepted or refused is not this property's matter: only that it does not depend on the history
            continue
        if (out[0] == "pkg") != want:
            raise RuntimeError(f"harness: menu query {b}/{q} ext={ext} expected ok={want} but got {out[:3]}")
    seen_states = {}
    frontier = [()]
    transitions = 0
    validated = 0
    bad = []
    hash_succ = {}       # state hash -> {event: outcome key}   (run-time check of the canonicalisation argument)
    hash_conflicts = []
    outcomes_per_query = {}
    max_depth_done = 0
    for d in range(depth):
        work = [(list(h), max_exec, False) for h in frontier]
        results = par.pmap(expand, work, chunksize=1)
        nxt = []
        for h, (sh, succ) in zip(frontier, results):
            seen_states.setdefault(sh, h)
            table = {}
            for ev, out, h2 in succ:
                transitions += 1
                okey = out[:2] if out[0] == "pkg" else out
                table[ev] = okey
                if ev[0] in ("tr", "again"):
                    validated += 1
                    b = [e[1] for e in h if e[0] == "new"][ev[1]]
                    outcomes_per_query.setdefault((b, ev[2]), set()).add(okey)
                    # which pristine outcome applies: ext attached to this executor and not yet consumed?
                    cands = candidates(base, b, ev, h)
                    if okey not in cands:
                        bad.append((tuple(h), ev, okey, sorted(cands)[0]))
                newh = h + (ev,)
                if len(newh) < depth:
                    if d + 1 >= dedup_from:
                        if h2 in seen_states:
                            continue
                        seen_states[h2] = newh
                    nxt.append(newh)
                else:
                    seen_states.setdefault(h2, newh)
            prev = hash_succ.get(sh)
            if prev is None:
                hash_succ[sh] = (h, table)
            else:
                # equal canonical state must imply equal successor outcomes for every common event shape
                ph, ptable = prev
                if [e[0] for e in ph if e[0] == "new"] == [e[0] for e in h if e[0] == "new"] and \
                        [e[1] for e in ph if e[0] == "new"] == [e[1] for e in h if e[0] == "new"]:
                    for ev, ok in table.items():
                        if ev in ptable and ptable[ev] != ok:
                            hash_conflicts.append(f"{ph} vs {h} on {ev}")
        frontier = nxt
        max_depth_done = d + 1
    # ---- report: minimise each bad history (drop events while the mismatch persists) and match known findings
    reported = {}
    for h, ev, got, want in sorted(bad, key=lambda x: (len(x[0]), str(x))):
        def acceptable(hist, ev=ev, h=h):
            bk = [e[1] for e in hist if e[0] == "new"][ev[1]]
            return candidates(base, bk, ev, hist)
        mh = minimise(h, ev, want, max_exec, acceptable)
        b = [e[1] for e in mh if e[0] == "new"][ev_index(mh, h, ev)]
        culprits = sorted({e[2] if e[0] == "tr" else (f"apply:{e[2]}" if e[0] == "apply" else (f"wrfail:{e[2]}" if e[0] == "wrfail" else e[0])) for e in mh if e[0] != "new"} | ({"same-object-again"} if ev[0] == "again" else set()))
        feat = {"culprits": culprits, "probe": ev[2], "probe_backend": b,
                "executor_backends": sorted({e[1] for e in mh if e[0] == "new"}),
                "n_executors": sum(1 for e in mh if e[0] == "new"),
                "got_kind": got[0], "want_kind": want[0], "got": str(got)[:200], "want": str(want)[:200],
                "history": [list(e) for e in h], "min_history": [list(e) for e in mh], "event": list(ev)}
        # (in the minimal history) a translation was abandoned on an executor other than the one that translates now
        feat["abandoned_on_other_executor"] = any(e[0] == "apply" and e[1] != ev[1] for e in mh)
        feat["diff"] = ""
        if got[0] == "pkg" and want[0] == "pkg":
            from mc.lang.norm import first_diff
            g = probe_once(mh, ev, max_exec, files=True)
            w = base[(b, ev[2], False)]
            if g[0] == "pkg" and w[0] == "pkg":
                feat["diff"] = first_diff(g[2], w[2])[:300]
        f = F.match(known, feat)
        if f is not None:
            rep.known_finding(f["id"], f["what"], f"{feat['min_history']} then {list(ev)}")
            continue
        key = (tuple(culprits), ev[2], b, tuple(feat["executor_backends"]))
        if key in reported:
            reported[key] += 1
            continue
        reported[key] = 1
        rep.violation(f"hist-{len(reported)}", f"after {feat['min_history']} the translation {list(ev)} [{b}] gives {str(got)[:120]} but a fresh process gives {str(want)[:120]} {feat['diff']}", feat)
    # equal canonical state must imply equal futures.  State the snapshot cannot see (e.g. closures) shows up here; when it
    # also changes an outcome it has been reported above as a violation, otherwise the canonicalisation itself is unsound.
    if hash_conflicts:
        rep.notes.append({"equal_state_hash_but_different_futures": hash_conflicts[:5]})
        if not bad:
            raise RuntimeError(f"harness: canonical state hash merges states with different futures: {hash_conflicts[0]}")
    rep.set("states", len(seen_states))
    rep.set("transitions", transitions)
    rep.set("traces_validated_against_impl", validated)
    rep.set("max_depth", max_depth_done)
    rep.set("bounds", {"history_depth": depth, "max_live_executors": max_exec, "dedup_from_depth": dedup_from})
    rep.set("distinct_outcomes_per_query", {f"{b}/{q}": len(v) for (b, q), v in sorted(outcomes_per_query.items())})
    rep.set("histories_with_mismatch", len(bad))
    rep.sample({"history": [["new", "atlas"], ["tr", 0, "mt_int_fail"]], "probe": ["tr", 0, "plain"], "menu": {k: v[0] for k, v in MENUS["atlas"].items()}})
    rep.assumptions += [
        "the two name counters are excluded from the state hash; outputs are compared modulo numbering (checked at run time: equal hash => equal successor outcomes)",
        "extended (docker) metadata attached with add_extended_md is expected to stay attached to that executor (histories with ext are compared with a pristine executor that had ext attached)",
    ]
    return rep.finish(require={"traces_validated_against_impl": 500, "states": 5})


def ev_index(mh, h, ev):
    return ev[1]


def probe_once(history, ev, max_exec, files=False):
    def body():
        import func_adl_xAOD.common.cpp_vars as cv
        from mc.core.translate import NAME_BASE
        cv.unique_var_index = NAME_BASE
        executors = []
        for e in history:
            apply_event(e, executors)
        out = apply_event(ev, executors)
        if files:
            return out
        return out[:2] if out[0] == "pkg" else out
    return _in_child(body)


def ext_state(h, i, b):
    """Is the extended-metadata handler attached to executor i still in force at the end of history h?
    'none' - never attached; 'attached' - attached and no translation on that executor has COMPLETED since (a translation
    that was only started - apply - of a query that translates leaves configuration alone); 'unknown' - a completed
    (written or failed) translation intervened: the handlers are configuration the library drops at the end of a
    translation, and the property does not say whether they outlive one."""
    last = None
    for k, e in enumerate(h):
        if e[0] == "ext" and e[1] == i:
            last = k
    if last is None:
        return "none"
    for e in h[last + 1:]:
        if e[0] in ("tr", "again", "wrfail") and e[1] == i:
            return "unknown"
        if e[0] == "apply" and e[1] == i and MENUS[b][e[2]][1] in (False, "any"):
            return "unknown"       # a query that cannot be translated may already fail (and reset) while it is applied
    return "attached"


def candidates(base, b, ev, h):
    "The pristine outcomes acceptable for translating menu query ev[2] on executor ev[1] (backend b) after history h."
    def key(o):
        return o[:2] if o[0] == "pkg" else o
    if ev[2] != "docker":
        return {key(base[(b, ev[2], False)])}
    st = ext_state(h, ev[1], b)
    if st == "none":
        return {key(base[(b, ev[2], False)])}
    if st == "attached":
        return {key(base[(b, ev[2], True)])}
    return {key(base[(b, ev[2], False)]), key(base[(b, ev[2], True)])}


def minimise(h, ev, want, max_exec, acceptable=None):
    """Greedy 1-minimal sub-history that still makes `ev` differ from the pristine outcome (executor indices kept valid).
    acceptable(history) -> set of outcomes that are fine after that history (there can be two: with / without attached ext)."""
    cur = list(h)
    changed = True
    while changed:
        changed = False
        for i in range(len(cur)):
            e = cur[i]
            if e[0] == "new":
                # an executor can only be dropped if nothing refers to it or to later ones
                idx = sum(1 for x in cur[:i] if x[0] == "new")
                nnew = sum(1 for x in cur if x[0] == "new")
                if idx != nnew - 1 or ev[1] == idx or any(x[0] in ("tr", "again", "ext", "apply") and x[1] == idx for x in cur):
                    continue
            cand = cur[:i] + cur[i + 1:]
            # 'again' (the caller translates the SAME query object once more) is only defined after the 'tr' that handed that
            # object over: a sub-history that drops it is not a history
            bk = [x[1] for x in cand if x[0] == "new"]
            ok = True
            for k, x in enumerate(cand + [ev]):
                if x[0] == "again" and not any(y[0] == "tr" and y[2] == x[2] and bk[y[1]] == bk[x[1]] for y in cand[:k]):
                    ok = False
            if not ok:
                continue
            try:
                got = probe_once(cand, ev, max_exec)
            except Exception:
                continue
            if (got not in acceptable(cand)) if acceptable is not None else (got != want):
                cur = cand
                changed = True
                break
    return cur


if __name__ == "__main__":
    sys.exit(main(sys.argv[1] if len(sys.argv) > 1 else "quick"))
