"""C04 - faults are equivalent: loud on empty First / bad index, never spurious; evaluation as lazy as the query.

A partiality grammar: every partial operation (First of a sequence / of a filtered sequence, indexing, link
dereference, nested partial operations) placed bare, as the right operand of and/or behind every guard from a menu
(the right guard, an insufficient guard, a guard on a different sequence, negated guards), in either arm of a
conditional, behind an event-level or element-level Where, next to a total column; thorough adds pairs of partial
operations and two-level guards.  Run on the exhaustive event domain (empty / short collections, null links); per event
the outcome kind (rows | loud fault) must agree with the Python reference.
"""
import itertools
import sys
from collections import Counter

from mc.checks.c01 import classify_event
from mc.core import findings as F
from mc.core.evidence import Report
from mc.core.pipeline import Case, execute, run_standalone
from mc.edm.events import event_domain
from mc.lang import qgen
from mc.lang.features import features

PROP = "C04"


def build(backend, tier):
    a = qgen.ALPHA[backend]
    S = f"e.{a.primary}('A')"
    T = f"e.{a.secondary}('B')"
    cases = []

    def add(kind, q):
        cases.append({"kind": kind, "query": q})
    # ---- event-level partial operations (value-typed) and the guards that make them safe / do not
    ev_partials = {
        "first": (f"{S}.First().pt()", [f"{S}.Count() > 0"]),
        "first-where": (f"{S}.Where(lambda j: j.pt() > 1).First().pt()", [f"{S}.Where(lambda j: j.pt() > 1).Count() > 0"]),
        "first-select": (f"{S}.Select(lambda j: j.pt()).First()", [f"{S}.Count() > 0"]),
        "index0": (f"{S}[0].pt()", [f"{S}.Count() > 0"]),
        "index1": (f"{S}[1].pt()", [f"{S}.Count() > 1"]),
        "index2": (f"{S}[2].nTrk()", [f"{S}.Count() > 2"]),
        "index-neg1": (f"{S}[-1].pt()", [f"{S}.Count() > 0"]),
        "index-neg2": (f"{S}[-2].pt()", [f"{S}.Count() > 1"]),
        "index-last": (f"{S}[{S}.Count() - 1].pt()", [f"{S}.Count() > 0"]),
        "index-count": (f"{S}[{S}.Count()].pt()", []),
        "first-selectmany-where": (f"{S}.SelectMany(lambda j: {T}.Where(lambda k: k.pt() > j.pt())).First().pt()", [f"{S}.SelectMany(lambda j: {T}.Where(lambda k: k.pt() > j.pt())).Count() > 0"]),
        "first-selectmany-parts-where": (f"{S}.SelectMany(lambda j: j.parts().Where(lambda p: p.pt() > 0.5)).First().pt()", [f"{S}.SelectMany(lambda j: j.parts().Where(lambda p: p.pt() > 0.5)).Count() > 0"]),
        "first-selectmany-select": (f"{S}.SelectMany(lambda j: j.parts().Select(lambda p: p.pt())).First()", [f"{S}.SelectMany(lambda j: j.parts()).Count() > 0"]),
        "first-tags-first": (f"{S}.First().tags().First()", []),
        "first-of-constant": (f"{S}.Where(lambda j: j.pt() > 1).Select(lambda j: 1).First()", [f"{S}.Where(lambda j: j.pt() > 1).Count() > 0"]),
        "first-of-float-constant": (f"{S}.Select(lambda j: 2.5).First()", [f"{S}.Count() > 0"]),
        "first-link": (f"{S}.First().link().pt()", []),
    }
    # ---- Range with computed bounds that come out negative, reversed or equal on some events: an empty range, never a fault
    los = ["0", "1", "2", f"{T}.Count()"]
    his = [f"{S}.Count() - 1", f"{S}.Count() - 2", f"{S}.Count() + 1", "0", "-1", f"{T}.Count() - 1", f"{S}.Count() - {T}.Count()"]
    for lo in los:
        for hi in his:
            r = f"Range({lo}, {hi})"
            add("range-bounds:column", f"ds.Select(lambda e: {r})")
            add("range-bounds:count", f"ds.Select(lambda e: {r}.Count())")
            add("range-bounds:select", f"ds.Select(lambda e: {r}.Select(lambda i: i * 2))")
            add("range-bounds:tuple", f"ds.Select(lambda e: ({S}.Count(), {r}.Sum()))")
            if lo == "0" and hi.startswith(f"{S}.Count() - "):
                add("range-bounds:index", f"ds.Select(lambda e: {r}.Select(lambda i: {S}[i].pt()))")
    for hi in ("j.nTrk() - 1", "j.nTrk() - 2", "j.tags().Count() - 1"):
        add("range-bounds:per-object", f"ds.Select(lambda e: {S}.Select(lambda j: Range(0, {hi}).Count()))")
        add("range-bounds:per-object-sum", f"ds.SelectMany(lambda e: {S}).Select(lambda j: Range(0, {hi}).Sum())")
    # ---- bool constants (captured python flags) in and / or chains: Python evaluates every operand to the LEFT of the constant
    # that settles the chain and none to its right
    for name, (p, good) in list(ev_partials.items())[:8]:
        for form, expr in (("and-false-right", f"({p} > 1) and False"), ("or-true-right", f"({p} > 1) or True"), ("and-true-right", f"({p} > 1) and True"),
                           ("or-false-right", f"({p} > 1) or False"), ("false-and-left", f"False and ({p} > 1)"), ("true-or-left", f"True or ({p} > 1)"),
                           ("true-and-left", f"True and ({p} > 1)"), ("false-or-left", f"False or ({p} > 1)"),
                           ("middle-false", f"({S}.Count() >= 0) and ({p} > 1) and False and ({T}.First().pt() > 1)")):
            add(f"bool-constant:{form}:{name}", f"ds.Select(lambda e: {expr})")
        add(f"bool-constant-where:and-false:{name}", f"ds.Where(lambda e: ({p} > 1) and False).Select(lambda e: {S}.Count())")
        add(f"bool-constant-where:or-true:{name}", f"ds.Where(lambda e: ({p} > 1) or True).Select(lambda e: {S}.Count())")
    # ---- chained comparisons are not supported (C09 demands a refusal); IF one is translated, it is as lazy as Python's:
    # a < b < c does not evaluate c once a < b is false
    for name, (p, good) in list(ev_partials.items())[:6]:
        add(f"chained-compare-guard:{name}", f"ds.Select(lambda e: 0 < {S}.Count() <= {p})")
        add(f"chained-compare-guard-where:{name}", f"ds.Where(lambda e: 0 < {S}.Count() <= {p}).Select(lambda e: {S}.Count())")
        add(f"chained-compare-guard-first-middle:{name}", f"ds.Select(lambda e: 5 < {S}.Count() < {p} < 1000)")
    weak_guards = [f"{S}.Count() > 0", f"{S}.Count() > 1", f"{T}.Count() > 0", f"{S}.Count() >= 0", f"{S}.Count() == 0"]
    for name, (p, good) in ev_partials.items():
        add(f"bare:{name}", f"ds.Select(lambda e: {p})")
        add(f"with-total:{name}", f"ds.Select(lambda e: ({S}.Count(), {p}))")
        add(f"total-first:{name}", f"ds.Select(lambda e: ({p}, {S}.Count()))")
        add(f"vector-then-partial:{name}", f"ds.Select(lambda e: ({T}.Select(lambda k: k.pt()), {p}))")
        add(f"partial-then-vector:{name}", f"ds.Select(lambda e: ({p}, {T}.Select(lambda k: k.pt())))")
        add(f"if-test:{name}", f"ds.Select(lambda e: (1 if {p} > 0 else 2))")
        add(f"if-test-tuple:{name}", f"ds.Select(lambda e: ((1 if {p} > 0 else 2), {S}.Count()))")
        add(f"if-test-arith:{name}", f"ds.Select(lambda e: (1 if {p} > 0 else 2) + {S}.Count())")
        add(f"where-test:{name}", f"ds.Where(lambda e: {p} > 0).Select(lambda e: {S}.Count())")
        for g in sorted(set(good + weak_guards)):
            add(f"and:{name}", f"ds.Select(lambda e: ({g} and {p} > 0))")
            add(f"or-not:{name}", f"ds.Select(lambda e: ((not {g}) or {p} > 0))")
            add(f"and3:{name}", f"ds.Select(lambda e: ({g} and {T}.Count() >= 0 and {p} > 0))")
            add(f"and3-mid:{name}", f"ds.Select(lambda e: ({T}.Count() >= 0 and {g} and {p} > 0))")
            add(f"or3:{name}", f"ds.Select(lambda e: ((not {g}) or {T}.Count() < 0 or {p} > 0))")
            add(f"and3-nested:{name}", f"ds.Select(lambda e: (({g} and {T}.Count() >= 0) and {p} > 0))")
            add(f"and-swapped:{name}", f"ds.Select(lambda e: ({p} > 0 and {g}))")
            add(f"if-body:{name}", f"ds.Select(lambda e: ({p} if {g} else -1))")
            add(f"if-else:{name}", f"ds.Select(lambda e: (-1 if not {g} else {p}))")
            add(f"if-else2:{name}", f"ds.Select(lambda e: (-1 if {g} else {p}))")
            add(f"ev-where:{name}", f"ds.Where(lambda e: {g}).Select(lambda e: {p})")
            add(f"ev-where-tuple:{name}", f"ds.Where(lambda e: {g}).Select(lambda e: ({S}.Count(), {p}))")
            add(f"where-in-where:{name}", f"ds.Where(lambda e: {g} and {p} > 0).Select(lambda e: {S}.Count())")
    # ---- element-level partial operations
    el_partials = {
        "tags-first": ("j.tags().First()", ["j.tags().Count() > 0"]),
        "tags-index1": ("j.tags()[1]", ["j.tags().Count() > 1"]),
        "tags-index-neg2": ("j.tags()[-2]", ["j.tags().Count() > 1"]),
        "tags-index-ntrk": ("j.tags()[j.nTrk()]", ["j.tags().Count() > j.nTrk()"]),
        "parts-first": ("j.parts().First().pt()", ["j.parts().Count() > 0"]),
        "parts-first-where": ("j.parts().Where(lambda p: p.pt() > 0).First().pt()", ["j.parts().Where(lambda p: p.pt() > 0).Count() > 0"]),
        "link": ("j.link().pt()", (["isNonnull(j.link())"] if a.has_nonnull else [])),
        "parts-first-tags-first": ("j.parts().First().tags().First()", []),
        "tags-first-of-constant": ("j.tags().Where(lambda t: t > 0.5).Select(lambda t: 1).First()", ["j.tags().Where(lambda t: t > 0.5).Count() > 0"]),
    }
    el_weak = ["j.pt() > 1", "j.tags().Count() > 0", "j.parts().Count() > 0", "j.nTrk() >= 0"]
    for name, (p, good) in el_partials.items():
        add(f"el-bare:{name}", f"ds.Select(lambda e: {S}.Select(lambda j: {p}))")
        add(f"el-rows:{name}", f"ds.SelectMany(lambda e: {S}).Select(lambda j: {p})")
        add(f"el-count-only:{name}", f"ds.Select(lambda e: {S}.Where(lambda j: {p} > 0).Count())")
        add(f"el-if-test:{name}", f"ds.Select(lambda e: {S}.Select(lambda j: (1 if {p} > 0 else 2)))")
        add(f"el-if-test-tuple:{name}", f"ds.SelectMany(lambda e: {S}).Select(lambda j: ((1 if {p} > 0 else 2), j.pt()))")
        for g in sorted(set(list(good) + el_weak)):
            add(f"el-and:{name}", f"ds.Select(lambda e: {S}.Select(lambda j: ({g} and {p} > 0)))")
            add(f"el-or-not:{name}", f"ds.Select(lambda e: {S}.Select(lambda j: ((not {g}) or {p} > 0)))")
            add(f"el-if:{name}", f"ds.Select(lambda e: {S}.Select(lambda j: ({p} if {g} else -1)))")
            add(f"el-if-else:{name}", f"ds.Select(lambda e: {S}.Select(lambda j: (-1 if not {g} else {p})))")
            add(f"el-where:{name}", f"ds.Select(lambda e: {S}.Where(lambda j: {g}).Select(lambda j: {p}))")
            add(f"el-where-rows:{name}", f"ds.SelectMany(lambda e: {S}.Where(lambda j: {g})).Select(lambda j: {p})")
            add(f"el-where-and:{name}", f"ds.Select(lambda e: {S}.Where(lambda j: {g} and {p} > 0).Count())")
            add(f"el-sum:{name}", f"ds.Select(lambda e: {S}.Where(lambda j: {g}).Select(lambda j: {p}).Sum())")
    # ---- a sequence handed from one Select to the next as a lambda parameter and used twice there: once by the guard, once
    # by the partial operation the guard protects (the same ast node / representation is shared by both uses)
    shared = {
        "where": f"{S}.Where(lambda j: j.pt() > 1)",
        "select": f"{S}.Select(lambda j: j.pt())",
        "bare": S,
        "where-select": f"{S}.Where(lambda j: j.pt() > 1).Select(lambda j: j.eta())",
    }
    for sn, sq in shared.items():
        val = "g.First()" if "select" in sn else "g.First().pt()"
        idx = "g[1]" if "select" in sn else "g[1].pt()"
        for gname, body in (
                ("ifexp", f"({val} if g.Count() > 0 else -1)"), ("ifexp-neg", f"(-1 if g.Count() == 0 else {val})"),
                ("and", f"(g.Count() > 0 and {val} > 1)"), ("or", f"(g.Count() == 0 or {val} > 1)"),
                ("index-ifexp", f"({idx} if g.Count() > 1 else -1)"), ("index-and", f"(g.Count() > 1 and {idx} > 1)"),
                ("unguarded", val), ("count-then-first-tuple", f"(g.Count(), {val})")):
            if gname.startswith("index") and sn != "bare":
                continue      # only a collection can be indexed (a Where / Select result is refused)
            add(f"shared-seq:{sn}:{gname}", f"ds.Select(lambda e: {sq}).Select(lambda g: {body})")
        add(f"shared-seq:{sn}:where-guard", f"ds.Select(lambda e: {sq}).Where(lambda g: g.Count() > 0).Select(lambda g: {val})")
    if tier != "quick":
        evp = list(ev_partials.items())
        for (n1, (p1, g1)), (n2, (p2, g2)) in itertools.permutations(evp[:6], 2):
            for ga in (g1 + [weak_guards[2]]):
                for gb in (g2 + [weak_guards[2]]):
                    add(f"two:{n1}:{n2}", f"ds.Select(lambda e: (({ga} and {p1} > 0), ({p2} if {gb} else -1)))")
                    add(f"two-nested:{n1}:{n2}", f"ds.Select(lambda e: ({ga} and ({gb} and ({p1} + {p2}) > 0)))")
                    add(f"two-where:{n1}:{n2}", f"ds.Where(lambda e: {ga}).Where(lambda e: {gb}).Select(lambda e: ({p1}, {p2}))")
    # de-duplicate
    seen = set()
    out = []
    for c in cases:
        if c["query"] not in seen:
            seen.add(c["query"])
            out.append(c)
    return out


def post(outs, events):
    stats = Counter()
    recs = []
    outcomes = set()
    for o in outs:
        c = o.case
        base = {"kind": c.info["kind"], "query": c.text, "backend": c.backend, "pid": c.pid}
        if o.status == "refused" and c.info["kind"].startswith("chained-compare-guard"):
            stats["refused_unsupported_form"] += 1
            continue
        if o.status == "refused":
            stats["refused"] += 1
            recs.append(dict(base, symptom="refused", exc=f"{o.pkg.exc_type}: {o.pkg.exc_msg}"[:200], explained_by=None))
            continue
        if o.status == "compile_fail":
            stats["compile_fail"] += 1
            recs.append(dict(base, symptom="compile-fail", error="; ".join(o.errors[:2])[:250], explained_by=None))
            continue
        stats["accepted"] += 1
        first = None
        nbad = 0
        for j in o.jobs:
            if not j.events:
                continue
            er = j.events[0]
            r = classify_event(c.text, events[er.event], er, loud_ok="[-" in c.text)
            stats["executions"] += 1
            if r is None:
                stats["agree"] += 1
                outcomes.add("rows" if er.end == "ok" else er.end)
                if er.end != "ok":
                    stats["faults_agreed"] += 1
            elif isinstance(r, tuple):
                stats["skipped_" + r[1]] += 1
            else:
                nbad += 1
                if first is None or (first.get("explained_by") and not r.get("explained_by")):
                    first = r
        if first is not None:
            first.update(base)
            first["nbad_events"] = nbad
            recs.append(first)
    return stats, recs, outcomes


def end_to_end_loudness(rep, tier):
    """"Fails loudly" holds for the JOB, not only for the C++: when the analysis step dies (which is what the First() /
    index exception does to it), the rendered runner.sh - run unmodified in the script sandbox of C16, every history of
    builds and earlier successful runs - must exit non-zero and must not deliver an output for that run."""
    import shutil
    from mc.checks import c16
    from mc.core import par
    from mc.core.translate import translate
    from mc.sandbox.box import build_macro
    work, macro_dirs = [], []
    hists = [["full"], ["d-o"], ["full", "r"], ["full", "r-d-o"], ["c", "r-d-o", "r-d2-o2"], ["full", "r-d-o", "r-d-o"], ["c", "r", "r-o-file"]]
    if tier != "quick":
        hists += [["full", "r", "r", "r-d2-o2"], ["c", "r-d-o", "r-d2-o2", "r-d-o"], ["full", "full"], ["c", "c-r", "r"]]
    for backend in ("atlas", "cms_aod", "cms_miniaod"):
        a = qgen.ALPHA[backend]
        pkg = translate(f"ds.Select(lambda e: e.{a.primary}('A').Where(lambda j: j.pt() > 1).First().pt())", backend)
        if not pkg.ok:
            raise RuntimeError(f"harness: cannot render the First() package for {backend}: {pkg.exc_msg}")
        md = build_macro(pkg.files)
        if md is not None:
            macro_dirs.append(md)
        for h in hists:
            work.append((backend, dict(pkg.files), h, "any", str(md) if md else None))
    n = 0
    runs = 0
    try:
        for stats, bad, outcomes in par.pmap(c16.explore, work):
            runs += stats["fault_runs"]
            for b in bad:
                if b.get("failed_tool") not in c16.JOB_TOOLS:
                    continue          # other steps are C16's business
                n += 1
                rep.violation(f"{b['backend']}-e2e-{n}", f"silent-job-failure [{b['backend']}] history {b['history']} invocation #{b['at']}: the analysis job fails "
                              f"(as on an event where First() is empty) but {b['problem']}", dict(b, symptom="silent-job-failure", kind="end-to-end", query="(runner.sh)"))
    finally:
        for d in macro_dirs:
            shutil.rmtree(d, ignore_errors=True)
    return runs


def main(tier="quick"):
    rep = Report(PROP, tier)
    known = F.load(PROP)
    e2e_runs = end_to_end_loudness(rep, tier)
    events = event_domain(2, 1)
    cases = []
    pid = 0
    for backend in ("atlas", "cms_aod", "cms_miniaod"):
        md = tuple(qgen.method_metadata(qgen.ALPHA[backend]))
        for c in build(backend, tier if backend == "atlas" else "quick"):
            cases.append(Case(pid, backend, c["query"], md, c))
            pid += 1
    res = execute(cases, events, chunk_size=70, post=post)
    stats = Counter()
    recs = []
    outcomes = set()
    for s, r, oc in res:
        stats.update(s)
        recs += r
        outcomes |= oc
    by_pid = {c.pid: c for c in cases}
    confirmed = 0
    for i, r in enumerate(sorted(recs, key=lambda r: (len(r["query"]), r["query"], r["backend"]))):
        r["features"] = sorted(features(r["query"]))
        f = F.match(known, r)
        if f is not None:
            rep.known_finding(f["id"], f["what"], r["query"][:130])
            continue
        if r["symptom"] not in ("refused", "compile-fail") and confirmed < 15 and r.get("event") is not None:
            confirmed += 1
            c = by_pid[r["pid"]]
            o = run_standalone(c, events, [("s", [r["event"]])])
            if o.status == "ok" and o.jobs and o.jobs[0].events:
                again = classify_event(c.text, events[r["event"]], o.jobs[0].events[0], loud_ok="[-" in c.text)
                if again is None or isinstance(again, tuple):
                    raise RuntimeError(f"harness: mismatch did not reproduce standalone: {r}")
                r["standalone_confirmed"] = True
        rep.violation(f"{r['backend']}-{i}", f"{r['symptom']} [{r['backend']}] {r['kind']}: {r['query'][:260]} :: " +
                      str({k: r[k] for k in ("exc", "error", "expected", "observed", "observed_end", "what", "event") if k in r})[:300], r)
    rep.set("states", len(cases))
    rep.set("transitions", len(cases))
    rep.set("traces_validated_against_impl", stats["executions"])
    stats["end_to_end_fault_runs"] = e2e_runs
    rep.set("counters", dict(stats))
    rep.set("distinct_outcome_kinds", sorted(outcomes))
    rep.set("events_in_domain", len(events))
    rep.sample({"kind": cases[3].info["kind"], "query": cases[3].text})
    rep.sample({"kind": cases[-1].info["kind"], "query": cases[-1].text})
    rep.assumptions += ["a null link dereference is observed through a poisoned Ref (NULLDEREF), never as undefined behaviour",
                        "queries whose Python meaning depends on lazy-vs-eager evaluation are skipped per event (counted)",
                        "end to end: a job step that dies is modelled by the C16 script sandbox failing the job tool (python / cmsRun) at each of its occurrences in each history",
                        "any loud failure (exception / failed status / null-dereference report) counts as 'fails loudly'; a NULLDEREF where the query never touches a null link is a violation"]
    return rep.finish(require={"traces_validated_against_impl": 5000, "faults_agreed": 0})


if __name__ == "__main__":
    sys.exit(main(sys.argv[1] if len(sys.argv) > 1 else "quick"))
