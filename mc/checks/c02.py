"""C02 - every accepted query yields a complete, self-consistent, compilable package.

Every package the translator returns for the grammar enumeration (all three backends), for a menu of further shapes
(metadata, injected code, explicit trees) and for a name-uniqueness sweep (column names {a, a1, a12, b} at every
position of wide tuples x every phase of the global name counter) is checked for: completeness (every file named in
the returned info exists, entry script executable, no template directive left unrendered), well-formed C++ (compiled
against the model EDM - the compiler judges declaration-before-use, scope and types) and a scope walk over the
translator-introduced identifiers (declared exactly once in the package, first use after the declaration).
"""
import itertools
import re
import sys
from collections import Counter

from mc.core import findings as F
from mc.core.evidence import Report
from mc.core.pipeline import Case, execute
from mc.edm.events import small_domain
from mc.lang import qgen

PROP = "C02"
GEN_NAME = re.compile(r"\b([A-Za-z_][A-Za-z_0-9]*?70\d{4})\b")
DECL = re.compile(r"^\s*(?:const\s+)?[A-Za-z_][\w:<>,\s\*&]*?[\s\*&]([A-Za-z_]\w*70\d{4})\s*(?:\(.*\))?;\s*$")
FOR = re.compile(r"^\s*for \(auto &&([A-Za-z_]\w*70\d{4}) : ")


def scope_walk(pkg, backend):
    """Generated names (they end in the harness-owned counter value 70dddd): exactly one declaration in the package,
    and no use textually before it in the file that declares it."""
    probs = []
    files = ["query.h", "query.cxx"] if backend == "atlas" else ["Analyzer.cc"]
    decls = Counter()
    decl_pos = {}
    uses = {}
    order = 0
    for fn in files:
        for ln, line in enumerate(pkg.files[fn].split("\n")):
            order += 1
            m = DECL.match(line) or FOR.match(line)
            declared_here = None
            if m and "return" not in line.split("(")[0] and "=" not in line.split(m.group(1))[0]:
                declared_here = m.group(1)
                decls[declared_here] += 1
                decl_pos.setdefault(declared_here, order)
            for name in GEN_NAME.findall(line):
                if name == declared_here:
                    # the declared name itself; any *other* occurrence on the line is a use
                    if line.count(name) > 1:
                        uses.setdefault(name, []).append(order + 0.5)
                    continue
                uses.setdefault(name, []).append(order)
    for name, n in decls.items():
        if n != 1:
            probs.append(f"{name} is declared {n} times")
    for name, us in uses.items():
        if name not in decls:
            probs.append(f"{name} is used but never declared")
        elif min(us) < decl_pos[name]:
            probs.append(f"{name} is used before its declaration")
    return probs


def completeness(pkg):
    probs = []
    for fn in pkg.all_filenames:
        if fn not in pkg.files:
            probs.append(f"file {fn} named in the returned info does not exist")
    if pkg.main_script not in pkg.files:
        probs.append(f"entry script {pkg.main_script} missing")
    elif not pkg.modes.get(pkg.main_script, 0) & 0o111:
        probs.append(f"entry script {pkg.main_script} is not executable")
    for fn, txt in pkg.files.items():
        for tok in ("{{", "{%", "{#"):
            if tok in txt:
                probs.append(f"unrendered template directive {tok} in {fn}")
    extra = set(pkg.listing) - set(pkg.all_filenames)
    if extra:
        probs.append(f"files written but not named in the returned info: {sorted(extra)}")
    # self-consistency of the package: every file the entry script takes from its own directory ($DIR/<name>) is a file of
    # the package (filelist.txt is put there by whoever runs the job), and the source file the script installs is the backend's
    script = pkg.files.get(pkg.main_script, "")
    import re as _re
    for name in sorted(set(_re.findall(r"\$DIR/([A-Za-z0-9_.]+)", script))):
        if name != "filelist.txt" and name not in pkg.files:
            probs.append(f"the entry script uses $DIR/{name}, which is not a file of the package")
    want_src = "query.cxx" if pkg.backend == "atlas" else "Analyzer.cc"
    if want_src not in pkg.files:
        probs.append(f"the package has no {want_src}")
    marker = {"atlas": "EL::AnaAlgorithm", "cms_aod": "edm::EDAnalyzer", "cms_miniaod": "edm::one::EDAnalyzer"}[pkg.backend]
    hdr = pkg.files.get("query.h", "") if pkg.backend == "atlas" else pkg.files.get("Analyzer.cc", "")
    if marker not in hdr:
        probs.append(f"the algorithm class of the package is not a {marker} (a file of another backend?)")
    return probs


def cross_backend_sequences(rep):
    """All six orders of the three backends (and the orders of each pair) translated in ONE process, two queries each: every
    package must be complete and consistent for ITS backend whatever was rendered before."""
    import itertools
    from mc.core.translate import translate
    n = 0
    qs = {"atlas": ["ds.Select(lambda e: e.Jets('A').Count())", "ds.SelectMany(lambda e: e.Jets('A')).Select(lambda j: j.pt())"],
          "cms_aod": ["ds.Select(lambda e: e.Muons('A').Count())", "ds.SelectMany(lambda e: e.Muons('A')).Select(lambda j: j.pt())"],
          "cms_miniaod": ["ds.Select(lambda e: e.Muons('A').Count())", "ds.SelectMany(lambda e: e.Muons('A')).Select(lambda j: j.pt())"]}
    fresh = {}
    orders = list(itertools.permutations(qs, 3)) + list(itertools.permutations(qs, 2))
    for order in orders:
        for b in order:
            for q in qs[b]:
                pkg = translate(q, b)
                n += 1
                if not pkg.ok:
                    rep.violation(f"seq-{n}", f"refused in the sequence {order}: [{b}] {q}: {pkg.exc_msg}", {"query": q, "backend": b, "order": list(order)})
                    continue
                for p in completeness(pkg):
                    rep.violation(f"seq-{n}", f"after translating for {order[:order.index(b)]} the {b} package is inconsistent: {p} :: {q}",
                                  {"query": q, "backend": b, "order": list(order), "symptom": "incomplete", "problem": p})
                key = (b, q)
                names = sorted(pkg.files)
                if key in fresh and fresh[key] != names:
                    rep.violation(f"seq-{n}", f"the {b} package holds {names} after {order[:order.index(b)]} but {fresh[key]} otherwise", {"query": q, "backend": b})
                fresh.setdefault(key, names)
    return n


def post(outs, events):
    stats = Counter()
    recs = []
    classes = set()
    for o in outs:
        c = o.case
        base = {"source": c.info.get("source"), "query": c.text, "backend": c.backend, "phase": c.info.get("phase")}
        if o.status == "refused":
            stats["refused"] += 1
            classes.add("refused")
            continue
        stats["packages"] += 1
        for p in completeness(o.pkg):
            recs.append(dict(base, symptom="incomplete", problem=p))
        if o.status == "compile_fail":
            classes.add("compile-fail")
            recs.append(dict(base, symptom="compile-fail", error="; ".join(o.errors[:2])[:300]))
            continue
        classes.add("ok")
        if o.pkg.files:
            for p in scope_walk(o.pkg, c.backend)[:3]:
                recs.append(dict(base, symptom="scope", problem=p))
            stats["scope_walked"] += 1
        # executed too: a read of an uninitialised automatic shows up as the pattern value / a crash
        for j in o.jobs:
            for er in j.events:
                stats["executions"] += 1
                if er.end == "CRASH":
                    recs.append(dict(base, symptom="crash", what=er.what[:100], event=er.event))
                for _t, cells in er.rows:
                    if any("-5.314010372517" in x or "-1.6947395" in x or "-1431655766" in x for x in cells):
                        recs.append(dict(base, symptom="uninitialised-read", event=er.event, row=cells[:4]))
    return stats, recs, classes


def extra_shapes(backend):
    a = qgen.ALPHA[backend]
    S = f"e.{a.primary}('A')"
    qs = [
        f"ResultTTree(ds.Select(lambda e: ({S}.Count(), {S}.Select(lambda j: j.pt()))), ['n', 'pts'], 'mytree', 'out.root')",
        f"ds.Select(lambda e: {{'n': {S}.Count(), 'first': {S}.First().pt(), 'tags': {S}.Select(lambda j: j.tags().Select(lambda t: t * 2))}})",
        f"MetaData(ds, {{'metadata_type': 'inject_code', 'name': 'b', 'body_includes': ['vector']}}).Select(lambda e: {S}.Count())",
        f"MetaData(ds, {{'metadata_type': 'add_cpp_function', 'name': 'twice', 'include_files': [], 'arguments': ['x'], 'code': ['double result = x * 2;'], 'return_type': 'double'}})"
        f".Select(lambda e: {S}.Select(lambda j: twice(j.pt()) + twice(j.eta())))",
        f"ds.Select(lambda e: {S}.Select(lambda j: DeltaR(j.eta(), j.phi(), 0.5, 0.25)))",
        f"ds.Select(lambda e: ({S}.Where(lambda j: j.pt() > 1 and j.isGood()).Count(), e.{a.secondary}('B').Select(lambda k: k.pt() if k.nTrk() > 1 else k.eta())))",
        f"ds.Where(lambda e: {S}.Count() > 0 or e.{a.secondary}('B').Count() > 0).Select(lambda e: {S}.Select(lambda j: j.parts().Select(lambda p: p.pt())))",
        f"ds.Select(lambda e: Range(0, {S}.Count()).Select(lambda i: i * 2))",
        # a declared tree_type at every nesting depth of the column (member and per-level buffers must agree)
        f"MetaData(ds, {{'metadata_type': 'add_method_type_info', 'type_string': '{a.primary_cls}', 'method_name': 'q', 'return_type': 'float', 'tree_type': 'double'}}).Select(lambda e: {S}.Select(lambda j: j.q()))",
        f"MetaData(ds, {{'metadata_type': 'add_method_type_info', 'type_string': '{a.primary_cls}', 'method_name': 'q', 'return_type': 'float', 'tree_type': 'double'}}).Select(lambda e: {S}.Select(lambda j: j.parts().Select(lambda p: p.q())))",
        f"MetaData(ds, {{'metadata_type': 'add_method_type_info', 'type_string': '{a.primary_cls}', 'method_name': 'nTrk', 'return_type': 'int', 'tree_type': 'long'}}).Select(lambda e: {S}.Select(lambda j: j.parts().Select(lambda p: p.parts().Select(lambda r: r.nTrk()))))",
        f"MetaData(ds, {{'metadata_type': 'add_method_type_info', 'type_string': '{a.primary_cls}', 'method_name': 'nTrk', 'return_type': 'int', 'tree_type': 'long'}}).Select(lambda e: ({S}.Count(), {S}.Select(lambda j: j.parts().Select(lambda p: p.nTrk()))))",
    ]
    if backend == "atlas":
        qs += [f"ds.Select(lambda e: {S}.Select(lambda j: j.getAttributeFloat('w')))", f"ds.Select(lambda e: {S}.Select(lambda j: j.getAttributeVectorFloat('v')))",
               "ds.Select(lambda e: e.EventInfo('EI').runNumber())",
               f"MetaData(ds, {{'metadata_type': 'add_job_script', 'name': 's', 'script': ['# x'], 'depends_on': []}}).Select(lambda e: {S}.Count())"]
    if backend == "atlas":
        # two tool blocks whose constructor / initialize lines each open and close a block: line TEXTS repeat
        # (closing braces, identical statements) within and across the blocks of one query
        def blk(n):
            return ("{'metadata_type': 'inject_code', 'name': '%s', 'body_includes': ['vector'], 'private_members': ['int m_%s;'], "
                    "'instance_initialization': ['m_%s(0)'], 'ctor_lines': ['if (m_%s == 0) {', 'm_%s = 1;', '}', 'if (m_%s == 1) {', 'm_%s = 2;', '}'], "
                    "'initialize_lines': ['if (m_%s == 2) {', 'ANA_MSG_INFO(\"setting up\");', '}', 'ANA_MSG_INFO(\"setting up\");']}") % ((n,) * 8)
        qs += [f"MetaData(MetaData(ds, {blk('ta')}), {blk('tb')}).Select(lambda e: {S}.Count())",
               f"MetaData(ds, {blk('tc')}).Select(lambda e: {S}.Select(lambda j: j.pt()))"]
    if a.has_nonnull:
        qs += [f"ds.Select(lambda e: {S}.Where(lambda m: isNonnull(m.globalTrack())).Select(lambda m: m.globalTrack().pt()))"]
    return qs


def sweep_cases(backend, tier):
    "Wide tuples whose column names collide under base+str(counter): every placement of {a, a1, a12, b} in a 12-tuple pattern x counter phases."
    a = qgen.ALPHA[backend]
    S = f"e.{a.primary}('A')"
    cases = []
    phases = range(0, 30) if tier == "quick" else range(0, 120)
    layouts = []
    n = 12
    for p in range(0, 2):
        for special in (("a1", "a"), ("a", "a1"), ("a12", "a1"), ("a1", "a12"), ("a12", "a")):
            names = [f"c{i}" for i in range(n)]
            names[p] = special[0]
            names[p + 10] = special[1]
            layouts.append(names)
    layouts.append(["a", "a1", "a12", "b"] * 3)
    for names in layouts:
        # constant columns: no other generated name is consumed before the column variables, so the counter phase is
        # exactly the index of the first column
        if len(set(names)) != len(names):
            names = [nm + "_" + str(i) if names.count(nm) > 1 else nm for i, nm in enumerate(names)]
        cols = ", ".join(f"'{nm}': {i + 1}" for i, nm in enumerate(names))
        qs = [f"ds.Select(lambda e: {{{cols}}})",
              f"ResultTTree(ds.SelectMany(lambda e: {S}).Select(lambda j: ({', '.join(['j.pt()'] * len(names))})), {names!r}, 't', 'f.root')"]
        for q in qs:
            for ph in phases:
                cases.append((q, ph))
    return cases


def _sweep_chunk(args):
    from mc.core.translate import parse_query, translate_ast
    from mc.cxx import build
    backend, items = args
    progs = []
    pk = {}
    bad = []
    for q, ph in items:
        pkg = translate_ast(parse_query(q), backend, query_text=q, name_base=ph)
        if not pkg.ok:
            continue
        pk[len(progs)] = (q, ph, pkg)
        progs.append(build.Program(len(progs), backend, pkg.files))
        # member names must be distinct whatever the counter phase
        hdr = pkg.files["query.h" if backend == "atlas" else "Analyzer.cc"]
        members = re.findall(r"^\s*(?:int|double|float|bool|std::vector<[^;]*>) (_\w+);", hdr, re.M)
        if len(set(members)) != len(members):
            dup = sorted({m for m in members if members.count(m) > 1})
            bad.append({"source": "name-sweep", "query": q, "backend": backend, "phase": ph, "symptom": "duplicate-member", "problem": f"members {dup} declared twice"})
    with build.Scratch() as s:
        _, failed = build.compile_batch(s.path, progs, backend, syntax_only=True)
        for idx, errs in failed.items():
            q, ph, pkg = pk[idx]
            bad.append({"source": "name-sweep", "query": q, "backend": backend, "phase": ph, "symptom": "compile-fail", "error": "; ".join(errs[:2])[:300]})
    return len(items), bad


def main(tier="quick"):
    rep = Report(PROP, tier)
    nseq = cross_backend_sequences(rep)
    known = F.load(PROP)
    events = small_domain()[:6]
    cases = []
    pid = 0
    plan = {"quick": {"atlas": (3, 2), "cms_aod": (3, 0), "cms_miniaod": (3, 0)}, "thorough": {"atlas": (4, 3), "cms_aod": (4, 2), "cms_miniaod": (4, 2)}}[tier]
    for backend, (k0, k1) in plan.items():
        g = qgen.Gen(backend)
        md = tuple(qgen.method_metadata(qgen.ALPHA[backend]))
        seen = set()
        for k in range(1, k0 + 1):
            for term in g.queries(k):
                for text, nd in qgen.expand(term, 1 if k <= k1 else 0):
                    if text not in seen:
                        seen.add(text)
                        cases.append(Case(pid, backend, text, md, {"source": "grammar"}))
                        pid += 1
        for q in extra_shapes(backend):
            # a shape that declares a method itself is not ALSO given the harness's default declaration of that method
            own = set(re.findall(r"'method_name': '(\w+)'", q))
            mdq = tuple(m for m in md if m.get("method_name") not in own) if own else md
            cases.append(Case(pid, backend, q, mdq, {"source": "shape"}))
            pid += 1
        from mc.lang import argscope
        for ctx, q in argscope.queries(backend):
            if q not in seen:
                seen.add(q)
                cases.append(Case(pid, backend, q, argscope.extra_metadata(q) + md, {"source": "argscope"}))
                pid += 1
        # one collection bound to a lambda parameter and used at several loop depths of the next step
        from mc.lang import seqparam
        for ctx, q in seqparam.queries(backend):
            if q not in seen:
                seen.add(q)
                cases.append(Case(pid, backend, q, md, {"source": "seqparam"}))
                pid += 1
        # explicit aggregates whose seed is computed, negative or compound (an extra block is opened for them), bare and consumed
        from mc.lang import aggfam
        for ctx, q in aggfam.queries(backend):
            if ctx.split(":")[0] in ("ev-seed", "obj-seed", "ev-seed-use") and q not in seen:
                seen.add(q)
                cases.append(Case(pid, backend, q, md, {"source": "aggregate-seed"}))
                pid += 1
        # enum values in namespaces one to four levels deep (model classes generated per program, as in C10): every qualified
        # name the translator writes must be one the data model declares
        from mc.checks import c10
        for c in c10.build(backend, "quick"):
            if c["kind"].startswith("enum:") and c["query"] not in seen:
                seen.add(c["query"] + c["kind"])
                cases.append(Case(pid, backend, c["query"], c["md"], {"source": "enum", "prelude": c["prelude"]}))
                pid += 1
        from mc.lang import memberfam
        for ctx, q in memberfam.queries(backend):
            if q not in seen:
                seen.add(q)
                cases.append(Case(pid, backend, q, md + memberfam.extra_metadata(backend), {"source": "member"}))
                pid += 1
        # nested lambdas that re-use ONE parameter name (the inner shadows the outer) with a later use of the outer parameter
        from mc.checks import c08
        for q in c08.shadow_family(backend):
            q1 = q.replace("j2", "j1").replace("j3", "j1")
            for qq in (q, q1):
                if qq not in seen:
                    seen.add(qq)
                    cases.append(Case(pid, backend, qq, md, {"source": "shadow"}))
                    pid += 1
        # the partiality programs (partial operations under guards, in tests and arms of conditionals, behind Wheres):
        # the shapes in which scope placement is most delicate
        from mc.checks import c04
        for c in c04.build(backend, "quick"):
            if c["query"] not in seen:
                seen.add(c["query"])
                cases.append(Case(pid, backend, c["query"], md, {"source": "partial"}))
                pid += 1
    res = execute(cases, events, chunk_size=90, post=post, keep_files=True)
    # the name-uniqueness sweep sets the global counter itself, so it runs its own translations (syntax + scope walk)
    from mc.core.pipeline import wrap_metadata
    from mc.core.translate import parse_query, translate_ast
    from mc.cxx import build
    work = []
    for backend in plan:
        sc = sweep_cases(backend, tier)
        for i in range(0, len(sc), 100):
            work.append((backend, sc[i:i + 100]))
    sweep_n = 0
    sweep_bad = []
    from mc.core import par
    for n_, bad_ in par.pmap(_sweep_chunk, work):
        sweep_n += n_
        sweep_bad += bad_
    stats = Counter()
    recs = list(sweep_bad)
    classes = set()
    for s_, r, cl in res:
        stats.update(s_)
        recs += r
        classes |= cl
    from mc.lang.features import features
    groups = Counter()
    for i, r in enumerate(sorted(recs, key=lambda r: (r["symptom"], len(r["query"]), r["query"], r["backend"]))):
        r["features"] = sorted(features(r["query"]))
        f = F.match(known, r)
        if f is not None:
            rep.known_finding(f["id"], f["what"], r["query"][:120])
            continue
        key = (r["symptom"], (r.get("error") or r.get("problem") or "")[:50])
        groups[key] += 1
        if groups[key] <= 5:
            rep.violation(f"{r['backend']}-{i}", f"{r['symptom']} [{r['backend']}] {r['query'][:220]} :: " + str({k: r[k] for k in ("problem", "error", "phase", "what", "row") if k in r and r[k] is not None})[:300], r)
        else:
            rep.violations.append((f"{r['backend']}-{i}", "(grouped)", r))
    rep.set("states", len(cases) + sweep_n)
    rep.set("transitions", len(cases) + sweep_n)
    rep.set("traces_validated_against_impl", stats["packages"] + sweep_n)
    stats["cross_backend_sequence_translations"] = nseq
    rep.set("counters", dict(stats))
    rep.set("name_sweep_translations", sweep_n)
    rep.set("outcome_classes", sorted(classes))
    rep.sample({"source": cases[0].info["source"], "query": cases[0].text})
    rep.sample({"source": "name-sweep", "query": sweep_cases("atlas", "quick")[0][0][:200], "counter_phase": 0})
    rep.assumptions += ["'well-formed against the data model as declared' is decided by g++ 12 against the model EDM; a missing #include cannot be detected by the spliced batch build "
                        "(every stub header is present) - include content is checked by C06/C12/C14",
                        "translator-introduced identifiers are recognised by the harness-owned counter value (70dddd suffix); the sweep sets the counter to 0..29 (thorough 0..119) instead"]
    return rep.finish(require={"traces_validated_against_impl": 1000})


if __name__ == "__main__":
    sys.exit(main(sys.argv[1] if len(sys.argv) > 1 else "quick"))
