"""C01 - the generated job computes exactly the rows and values the query denotes (all three backends).

Exhaustive enumeration of the typed query grammar up to an operator budget (M1), with bounded leaf deviations, times an
exhaustive small event domain; oracle = the query text evaluated by CPython on the same events (M2).
"""
import sys
import time
from collections import Counter

from mc.core import findings as F
from mc.core.evidence import Report, seed
from mc.core.pipeline import Case, execute, run_standalone
from mc.cxx.build import parse_value
from mc.edm.events import event_domain
from mc.lang import qgen
from mc.lang.ref import evaluate_stable

PROP = "C01"

LOUD = {"THROW", "FAILURE", "NULLDEREF"}


def veq(a, b, tol=0.0) -> bool:
    if isinstance(a, list) or isinstance(b, list):
        if not (isinstance(a, list) and isinstance(b, list)) or len(a) != len(b):
            return False
        return all(veq(x, y, tol) for x, y in zip(a, b))
    try:
        fa, fb = float(a), float(b)
    except (TypeError, ValueError):
        return False
    if fa == fb:
        return True
    return tol > 0 and abs(fa - fb) <= tol * max(abs(fa), abs(fb))


def _fits_int64(v) -> bool:
    "every number is an int within 64 bits (or a bool / small float): used where integer LITERALS of the query are the subject"
    if isinstance(v, (list, tuple)):
        return all(_fits_int64(x) for x in v)
    if isinstance(v, bool):
        return True
    if isinstance(v, int):
        return -2 ** 63 <= v < 2 ** 63
    if isinstance(v, float):
        return v == v and abs(v) <= 1e300
    return False


def _out_of_range(v) -> bool:
    if isinstance(v, (list, tuple)):
        return any(_out_of_range(x) for x in v)
    if isinstance(v, bool):
        return False
    if isinstance(v, int):
        return abs(v) > 2 ** 31 - 1
    if isinstance(v, float):
        return v != v or abs(v) > 1e300
    if isinstance(v, complex):
        return True
    return False


def _has_nonfinite(v) -> bool:
    if isinstance(v, (list, tuple)):
        return any(_has_nonfinite(x) for x in v)
    return isinstance(v, float) and (v != v or v in (float("inf"), float("-inf")))


def rows_equal(exp_rows, obs_rows, tol=0.0) -> bool:
    return veq([list(r) for r in exp_rows], [list(r) for r in obs_rows], tol)


def _split_inner(col):
    if isinstance(col, list) and col and all(isinstance(x, list) for x in col):
        return [[x] for L in col for x in L]
    return col


def _explode(rows, level):
    out = []
    for row in rows:
        lc = [i for i, c in enumerate(row) if isinstance(c, list)]
        if len(lc) != 1:
            return None
        i = lc[0]
        col = row[i]
        if level == 1:
            items = [[x] for x in col]
        else:
            if not (len(col) == 1 and isinstance(col[0], list)):
                return None
            items = [[[y]] for y in col[0]]
        for it in items:
            r = list(row)
            r[i] = it
            out.append(r)
    return out


def seq_split_relation(exp_rows, obs_rows) -> bool:
    """Known defect shape: a sequence-valued column built inside a per-object lambda is filled once per inner element
    (each row / inner vector holds a single element) instead of once per object."""
    exp_rows = [list(r) for r in exp_rows]
    e1 = _explode(exp_rows, 1)
    if e1 is not None:
        if rows_equal(e1, obs_rows):
            return True
        e2 = _explode(e1, 2)
        if e2 is not None and rows_equal(e2, obs_rows):
            return True
    alt = [[_split_inner(c) for c in row] for row in exp_rows]
    return alt != exp_rows and rows_equal(alt, obs_rows)


ALT_SEMANTICS = [
    ("minmax-seed0", dict(minmax="seed0")),
    ("c-int-division", dict(c_int_div=True)),
    ("range-bounds-unset", dict(range_mode="empty")),
    ("minmax-seed0+range-bounds-unset", dict(minmax="seed0", range_mode="empty")),
]


def classify_event(text, ev, er, extra_env=None, tol=0.0, loud_ok=False, int64=False):
    """Compare one (query, event) execution with the reference.  Returns None if it agrees / is not defined,
    ("skip", why) if the reference does not define it, or a mismatch dict."""
    exp, _ = evaluate_stable(text, ev, extra_env=extra_env)
    if exp[0] in ("unsupported", "ambiguous"):
        return ("skip", exp[0])
    if exp[0] == "rows" and _out_of_range(exp[1]) and not (int64 and _fits_int64(exp[1])):
        return ("skip", "out-of-range")    # beyond exactly representable integers / finite doubles: outside the statement
    obs_rows = None
    if er.end == "ok":
        try:
            obs_rows = [[parse_value(c) for c in r[1]] for r in er.rows]
        except Exception as e:  # unparsable output is a harness/format problem worth seeing
            return {"symptom": "unparsable-output", "expected": exp, "observed_end": er.end, "observed": str(er.rows)[:200], "explained_by": None}
    if exp[0] == "rows":
        if er.end == "ok" and rows_equal(exp[1], obs_rows, tol):
            return None
        if loud_ok and er.end in LOUD and er.end != "NULLDEREF":
            return None     # e.g. a negative index: a loud failure is as good as Python's from-the-end value
        symptom = "value-mismatch" if er.end == "ok" else "spurious-fault"
    else:
        if er.end in LOUD and not (er.end == "NULLDEREF" and exp[1] != "nullderef"):
            return None
        symptom = "missing-fault" if er.end == "ok" else ("crash" if er.end == "CRASH" else "wrong-fault")
    explained = None
    for name, kw in ALT_SEMANTICS:
        alt, _ = evaluate_stable(text, ev, extra_env=extra_env, **kw)
        if alt[0] == "rows" and er.end == "ok" and rows_equal(alt[1], obs_rows):
            explained = name
            break
        if alt[0] == "rows" and er.end == "ok" and seq_split_relation(alt[1], obs_rows):
            explained = name + "+seq-column-split"
            break
        if alt[0] == "fault" and er.end in LOUD and exp[0] == "rows":
            explained = name + ":fault"
            break
        if alt[0] == "unsupported" and "zero division" in str(alt[1]) and er.end == "ok" and _has_nonfinite(obs_rows):
            explained = name + "+zero-division"
            break
    if explained is None and exp[0] == "rows" and er.end == "ok" and seq_split_relation(exp[1], obs_rows):
        explained = "seq-column-split"
    return {"symptom": symptom, "expected": exp, "observed_end": er.end, "what": er.what[:120],
            "observed": obs_rows, "explained_by": explained, "event": ev.id}


def post(outs, events):
    """Runs inside the worker: reduce outcomes to counters + mismatch records."""
    stats = Counter()
    recs = []
    distinct = set()
    for o in outs:
        c = o.case
        if o.status == "refused":
            stats["refused"] += 1
            recs.append({"symptom": "refused", "pid": c.pid, "query": c.text, "backend": c.backend,
                         "exc": f"{o.pkg.exc_type}: {o.pkg.exc_msg}"[:300], "explained_by": None, "ndev": c.info.get("ndev", 0)})
            continue
        if o.status == "compile_fail":
            stats["compile_fail"] += 1
            recs.append({"symptom": "compile-fail", "pid": c.pid, "query": c.text, "backend": c.backend,
                         "error": "; ".join(o.errors[:2])[:300], "explained_by": None, "ndev": c.info.get("ndev", 0)})
            continue
        stats["accepted"] += 1
        first = None
        nbad = 0
        for j in o.jobs:
            if j.init != "ok" or not j.events:
                first = first or {"symptom": "init-failure", "what": j.init, "explained_by": None}
                nbad += 1
                continue
            er = j.events[0]
            # a quotient of float32 values (tags(), q()) may legitimately be formed in float precision
            r = classify_event(c.text, events[er.event], er, tol=(4e-7 if "/" in c.text else 0.0))
            stats["executions"] += 1
            if r is None:
                stats["agree"] += 1
                distinct.add((er.end, tuple(tuple(x[1]) for x in er.rows)))
                if len(er.rows) >= 2:
                    stats["multi_row_events"] += 1
                if er.end != "ok":
                    stats["faults_agreed"] += 1
            elif isinstance(r, tuple):
                stats["skipped_" + r[1]] += 1
            else:
                nbad += 1
                if first is None or (first.get("explained_by") and not r.get("explained_by")):
                    first = r
        if first is not None:
            first.update({"pid": c.pid, "query": c.text, "backend": c.backend, "nbad_events": nbad, "ndev": c.info.get("ndev", 0)})
            recs.append(first)
    return stats, recs, len(distinct)


def build_cases(tier: str):
    plan = {
        # backend: (max k with d=0, max k with d<=1, max k with d<=2)
        "quick": {"atlas": (4, 3, 0), "cms_aod": (3, 2, 0), "cms_miniaod": (3, 2, 0)},
        "thorough": {"atlas": (5, 4, 3), "cms_aod": (4, 3, 0), "cms_miniaod": (4, 3, 0)},
    }[tier]
    cases = []
    gen_stats = {}
    pid = 0
    for backend, (k0, k1, k2) in plan.items():
        g = qgen.Gen(backend)
        md = tuple(qgen.method_metadata(qgen.ALPHA[backend]))
        seen = set()
        nsk = 0
        for k in range(1, k0 + 1):
            d = 2 if k <= k2 else (1 if k <= k1 else 0)
            for term in g.queries(k):
                nsk += 1
                for text, nd in qgen.expand(term, d):
                    if text in seen:
                        continue
                    seen.add(text)
                    cases.append(Case(pid, backend, text, md, {"k": k, "ndev": nd}))
                    pid += 1
        # calls that take arguments, receiver and arguments at different loop depths, under every consumer
        from mc.lang import argscope
        nargs = 0
        for ctx, text in argscope.queries(backend):
            if text not in seen and (tier != "quick" or backend == "atlas" or ctx in ("sum", "column-2d", "first-receiver")):
                seen.add(text)
                nargs += 1
                cases.append(Case(pid, backend, text, argscope.extra_metadata(text) + md, {"k": "argscope:" + ctx, "ndev": 0}))
                pid += 1
        # every expression form mixing an outer and an inner loop variable, under the same consumers
        from mc.lang import mixfam
        nmix = 0
        for ctx, text in mixfam.queries(backend):
            if text not in seen and (tier != "quick" or backend == "atlas" or ctx in ("sum", "column-2d", "first-receiver")):
                seen.add(text)
                nmix += 1
                cases.append(Case(pid, backend, text, md, {"k": "mixed-scope:" + ctx, "ndev": 0}))
                pid += 1
        # two partial values (First / index) in one expression or row; nested flattenings under every terminal
        from mc.lang import partfam, smfam
        nextra = 0
        for fam, label in ((partfam, "two-partials"), (smfam, "flatten")):
            for ctx, text in fam.queries(backend):
                if text not in seen and (tier != "quick" or backend == "atlas" or ctx.split(":")[0] in ("ev-tuple", "el-tuple", "column", "first", "tuple")):
                    seen.add(text)
                    nextra += 1
                    cases.append(Case(pid, backend, text, md, {"k": label + ":" + ctx, "ndev": 0}))
                    pid += 1
        # explicit Aggregate(init, lambda acc, v: ...) with computed initial values and closures over enclosing loops
        from mc.lang import aggfam
        naggs = 0
        for ctx, text in aggfam.queries(backend):
            if text not in seen and (tier != "quick" or backend == "atlas" or ctx.split(":")[0] in ("ev-tuple", "obj-stream", "obj-sum", "ev-seed", "obj-seed", "ev-seed-use")):
                seen.add(text)
                naggs += 1
                cases.append(Case(pid, backend, text, md, {"k": "aggregate:" + ctx, "ndev": 0}))
                pid += 1
        # intermediate tuples / lists / dictionaries carried from one Select to the next and read back by index, key, attribute
        from mc.lang import structfam
        nstruct = 0
        for ctx, text in structfam.queries(backend):
            sk, mk = ctx.split(":")
            if text not in seen and (tier != "quick" or (backend == "atlas" and sk in ("tuple", "dict-attr") and mk in ("none", "where-repack"))):
                seen.add(text)
                nstruct += 1
                cases.append(Case(pid, backend, text, md, {"k": "struct:" + ctx, "ndev": 0}))
                pid += 1
        # one collection bound to a lambda parameter and used at several loop depths of the next step
        from mc.lang import seqparam
        nseqp = 0
        for ctx, text in seqparam.queries(backend):
            if text not in seen:
                seen.add(text)
                nseqp += 1
                cases.append(Case(pid, backend, text, md, {"k": "seqparam:" + ctx, "ndev": 0}))
                pid += 1
        # First() of a sequence of sequences under every consumer
        from mc.lang import firstseq
        for ctx, text in firstseq.queries(backend):
            if text not in seen and (tier != "quick" or backend == "atlas" or ":where" not in ctx):
                seen.add(text)
                cases.append(Case(pid, backend, text, md, {"k": "first-of-sequences:" + ctx, "ndev": 0}))
                pid += 1
        # rows built as list literals whose columns live in different blocks
        from mc.lang import listfam
        nlist = 0
        for ctx, text in listfam.queries(backend):
            if text not in seen and (tier != "quick" or backend == "atlas" or ctx.split(":")[0] in ("list2", "obj-list2")):
                seen.add(text)
                nlist += 1
                cases.append(Case(pid, backend, text, md, {"k": "list:" + ctx, "ndev": 0}))
                pid += 1
        # property references: data members read without a call, undeclared and declared
        from mc.lang import memberfam
        nmem = 0
        for ctx, text in memberfam.queries(backend):
            if text not in seen:
                seen.add(text)
                nmem += 1
                cases.append(Case(pid, backend, text, md + memberfam.extra_metadata(backend), {"k": "member:" + ctx, "ndev": 0}))
                pid += 1
        derived = sum(len(v) for v in g._memo.values())
        gen_stats[backend] = {"skeletons": nsk, "programs": len(seen), "derived_subterms": derived, "argument_scope_programs": nargs, "explicit_aggregate_programs": naggs, "mixed_scope_programs": nmix, "two_partials_and_flatten_programs": nextra, "intermediate_structure_programs": nstruct, "sequence_parameter_programs": nseqp, "member_variable_programs": nmem, "list_row_programs": nlist,
                              "bounds": {"k_d0": k0, "k_d1": k1, "k_d2": k2}}
    return cases, gen_stats


JOBCFG_INPUTS = [[0], [1], [9], [10], [11], [30], [3, 12], [11, 0, 2], [0, 0, 5], [100]]


def job_configuration_runs(rep, tier):
    """"Every input event": the rendered job configuration (ATestRun_eljob.py, analyzer_cfg.py), executed unmodified
    against the stand-in job frameworks (mc/standin/jobfw), must schedule the generated algorithm and hand it every event
    of every listed input file, in file order, and write one output."""
    from mc.core.translate import translate
    from mc.lang.jobcfg import run_config
    n = 0
    outcomes = set()
    for backend, coll in (("atlas", "Jets"), ("cms_aod", "Muons"), ("cms_miniaod", "Muons")):
        queries = [f"ds.Select(lambda e: e.{coll}('A').Count())", f"ds.SelectMany(lambda e: e.{coll}('A')).Select(lambda j: j.pt())"]
        if backend == "atlas":
            queries.append("MetaData(ds, {'metadata_type': 'add_job_script', 'name': 'n', 'script': ['# nothing'], 'depends_on': []}).Select(lambda e: e.Jets('A').Count())")
        for qi, q in enumerate(queries):
            pkg = translate(q, backend)
            if not pkg.ok:
                raise RuntimeError(f"harness: cannot render the package for the job-configuration runs: {backend} {q}: {pkg.exc_msg}")
            for counts in (JOBCFG_INPUTS if qi == 0 or tier != "quick" else JOBCFG_INPUTS[3:6]):
                r = run_config(pkg.files, backend, counts)
                n += 1
                out = r["output"]
                want_alg = "query" if backend == "atlas" else "Analyzer"
                prob = None
                if r["rc"] != 0:
                    prob = f"the job configuration failed: {r['stderr'][-300:]}"
                elif out is None or len(r["produced"]) != 1:
                    prob = f"the job wrote {r['produced']} instead of exactly one output where the runner script expects it"
                elif out["inputs"] != r["inputs_expected"]:
                    prob = f"the job read {out['inputs']} instead of the listed files in order"
                elif want_alg not in out["algs"]:
                    prob = f"the generated algorithm '{want_alg}' is not scheduled (scheduled: {out['algs']})"
                elif out["processed"] != sum(counts):
                    prob = f"{out['processed']} of {out['total']} input events are processed"
                outcomes.add((backend, tuple(counts), None if out is None else out["processed"]))
                if prob:
                    rep.violation(f"{backend}-jobcfg-{n}", f"job-configuration [{backend}] inputs with {counts} events: {prob} :: {q}",
                                  {"symptom": "job-configuration", "backend": backend, "query": q, "event_counts": counts, "problem": prob, "observed": r})
    return n, len(outcomes)


def main(tier="quick"):
    rep = Report(PROP, tier)
    known = F.load(PROP)
    njob, njob_outcomes = job_configuration_runs(rep, tier)
    cases, gen_stats = build_cases(tier)
    events = event_domain(2, 1) if tier == "quick" else event_domain(3, 1)
    # VERIF_SEED only permutes the work order
    import random
    rnd = random.Random(seed())
    order = list(range(len(cases)))
    rnd.shuffle(order)
    cases = [cases[i] for i in order]
    res = execute(cases, events, chunk_size=90, post=post)
    stats = Counter()
    recs = []
    distinct = 0
    for s, r, d in res:
        stats.update(s)
        recs += r
        distinct += d
    recs.sort(key=lambda r: (r["ndev"], len(r["query"]), r["query"]))
    by_pid = {c.pid: c for c in cases}
    confirmed = 0
    from mc.lang.features import features
    for r in recs:
        feat = dict(r)
        feat["features"] = sorted(features(r["query"]))
        r["features"] = feat["features"]
        f = F.match(known, feat)
        if f is not None:
            rep.known_finding(f["id"], f["what"], r["query"] if r["ndev"] == 0 else None)
            continue
        # standalone confirmation for execution mismatches (bounded number - the rest are listed unconfirmed)
        if r["symptom"] not in ("refused", "compile-fail") and confirmed < 25:
            confirmed += 1
            c = by_pid[r["pid"]]
            evi = r.get("event")
            if evi is not None:
                o = run_standalone(c, events, [("s", [evi])])
                if o.status == "ok" and o.jobs and o.jobs[0].events:
                    again = classify_event(c.text, events[evi], o.jobs[0].events[0])
                    if again is None or isinstance(again, tuple):
                        raise RuntimeError(f"harness: mismatch did not reproduce standalone: {r}")
                    r["standalone_confirmed"] = True
        rep.violation(f"{r['backend']}-{r['pid']}", f"{r['symptom']} [{r['backend']}] {r['query']} :: " +
                      str({k: r[k] for k in ("exc", "error", "expected", "observed", "observed_end", "what", "explained_by") if k in r})[:400], r)
    nprog = len(cases)
    rep.set("states", sum(g["derived_subterms"] for g in gen_stats.values()) + nprog)
    rep.set("transitions", sum(g["derived_subterms"] for g in gen_stats.values()) + nprog)
    rep.set("traces_validated_against_impl", stats["executions"])
    rep.set("programs", nprog)
    rep.set("events_in_domain", len(events))
    rep.set("generator", gen_stats)
    stats["job_configuration_runs"] = njob
    rep.set("counters", dict(stats))
    rep.set("distinct_outcomes", distinct)
    rep.set("job_configuration", {"runs": njob, "distinct_outcomes": njob_outcomes, "input_event_counts": JOBCFG_INPUTS})
    for c in cases[:4]:
        rep.sample({"backend": c.backend, "query": c.text})
    rep.assumptions += [
        "model event data model (mc/cxx/include) stands in for the ATLAS / CMSSW headers",
        "all event values are dyadic rationals: comparison with the Python reference is exact equality",
        "queries whose Python meaning depends on lazy-vs-eager evaluation, divides by zero or leaves a math domain are skipped (counted)",
        "operator budget and leaf-deviation bound as reported under coverage.generator.*.bounds",
        "the job frameworks (EventLoop / SampleHandler, cmsRun) are stand-ins (mc/standin/jobfw) that execute the rendered job configuration unmodified: maxEvents < 0 means all events",
    ]
    return rep.finish(require={"traces_validated_against_impl": 1000, "distinct_outcomes": 20})


if __name__ == "__main__":
    sys.exit(main(sys.argv[1] if len(sys.argv) > 1 else "quick"))
