"""C15 - job-script blocks are emitted once each in dependency order.

Exhaustive enumeration of every sequence (arrival order matters) of <= N blocks over a small alphabet of names, script
variants and depends_on sets, fed to the real generate_script_block; the oracle is an independent certificate checker
(it decides whether an error is due and otherwise *verifies* the emitted line list), not a re-implementation.
A bounded subset is pushed through the real ATLAS executor and checked in the rendered ATestRun_eljob.py.
"""
import itertools
import sys
from collections import Counter

from mc.core import findings as F
from mc.core import par
from mc.core.evidence import Report

PROP = "C15"
NAMES = ("a", "b", "c")
DEP_UNIVERSE = ("a", "b", "c", "zz")     # zz is never sent: a missing dependency


def script_of(name, variant):
    # variants 2, 3 are a proper prefix / a proper extension of variant 0; variant 4 is the empty script
    if variant == 2:
        return [f"{name}0:l1"]
    if variant == 3:
        return [f"{name}0:l1", f"{name}0:l2", f"{name}0:l3"]
    if variant == 4:
        return []
    return [f"{name}{variant}:l1", f"{name}{variant}:l2"] if variant == 0 else [f"{name}{variant}:only"]


def block_choices(max_deps=None):
    out = []
    for n in NAMES:
        for v in (0, 1):
            for k in range(len(DEP_UNIVERSE) + 1):
                if max_deps is not None and k > max_deps:
                    continue
                for deps in itertools.combinations(DEP_UNIVERSE, k):
                    out.append((n, v, deps))
    return out


def error_due(seq):
    "Independent decision: must the call raise?  Returns reason or None."
    scripts = {}
    deps = {}
    for n, v, d in seq:
        if n in scripts and scripts[n] != v:
            return "conflicting-duplicate"
        scripts.setdefault(n, v)
        deps.setdefault(n, set()).update(d)
    for n, ds in deps.items():
        for x in ds:
            if x not in deps:
                return "missing-dependency"
    # cycle detection (Kahn)
    remaining = dict((n, set(ds)) for n, ds in deps.items())
    done = set()
    while remaining:
        ready = [n for n, ds in remaining.items() if ds <= done]
        if not ready:
            return "cycle"
        for n in ready:
            done.add(n)
            del remaining[n]
    return None


def verify_output(seq, lines):
    "Certificate check of the emitted line list.  Returns None or a description of what is wrong."
    scripts = {}
    deps = {}
    for n, v, d in seq:
        scripts.setdefault(n, script_of(n, v))
        deps.setdefault(n, set()).update(d)
    pos = 0
    order = []
    empties = {n for n, sc in scripts.items() if not sc}      # a block without lines leaves no trace: nothing to locate
    while pos < len(lines):
        hit = None
        for n, sc in scripts.items():
            if sc and lines[pos:pos + len(sc)] == sc:
                hit = n
                break
        if hit is None:
            return f"line {pos} ({lines[pos]!r}) does not start any block's script (not contiguous / altered)"
        if hit in order:
            return f"block {hit} emitted twice"
        order.append(hit)
        pos += len(scripts[hit])
    missing = set(scripts) - set(order) - empties
    if missing:
        return f"blocks dropped: {sorted(missing)}"
    idx = {n: i for i, n in enumerate(order)}
    for n, ds in deps.items():
        for d in ds:
            if n in empties or d in empties:
                continue
            if idx[d] >= idx[n]:
                return f"block {n} emitted before its dependency {d}"
    return None


def check_seq(seq, gsb, JSS, shape="fresh"):
    # the containers the caller passes: a list of its own per block ("fresh"), tuples (metadata accepts them), or ONE list object
    # per distinct dependency set shared by every block that has it (after_setup = ["setup"] used for two blocks)
    if shape == "fresh":
        blocks = [JSS(name=n, script=script_of(n, v), depends_on=list(d)) for n, v, d in seq]
    elif shape == "tuple":
        blocks = [JSS(name=n, script=tuple(script_of(n, v)) if False else script_of(n, v), depends_on=tuple(d)) for n, v, d in seq]
    else:
        pool = {}
        blocks = [JSS(name=n, script=script_of(n, v), depends_on=pool.setdefault(tuple(d), list(d))) for n, v, d in seq]
    due = error_due(seq)
    try:
        lines = gsb(blocks)
    except ValueError as e:
        if due is None:
            return ("spurious-error", f"ValueError: {e}")
        return None
    except Exception as e:  # noqa
        return ("wrong-exception", f"{type(e).__name__}: {e}")
    if due is not None:
        return ("missing-error", f"{due} not reported; returned {lines}")
    bad = verify_output(seq, lines)
    if bad:
        return ("bad-output", bad + f"; returned {lines}")
    return None


def worker(args):
    first, maxlen, choices_rest = args
    from func_adl_xAOD.common.meta_data import JobScriptSpecification as JSS
    from func_adl_xAOD.common.meta_data import generate_script_block as gsb
    stats = Counter()
    bad = []
    outcomes = set()

    def rec(seq):
        r = check_seq(seq, gsb, JSS)
        used_shape = "fresh"
        for shape in ("tuple", "shared"):
            if r is None:
                r = check_seq(seq, gsb, JSS, shape)
                if r is not None:
                    r = (r[0], f"[depends_on given as {shape}] " + r[1])
                    used_shape = shape
                stats["shape_runs"] += 1
        stats["sequences"] += 1
        due = error_due(seq)
        stats["error_cases" if due else "ok_cases"] += 1
        if due is None and len(outcomes) < 5000:
            outcomes.add(tuple(n for n, _, _ in seq))
        if r is not None:
            stats["bad"] += 1
            if len(bad) < 50:
                bad.append({"symptom": r[0], "detail": r[1][:300], "sequence": [list(b) for b in seq], "due": due, "depends_on_shape": used_shape})
        if len(seq) < maxlen:
            for c in choices_rest:
                # name symmetry is NOT used: every sequence is enumerated
                rec(seq + (c,))
    rec((first,))
    return stats, bad, len(outcomes)


def through_executor(rep, known):
    "Blocks carried by MetaData at different chain positions -> rendered ATestRun_eljob.py."
    from mc.core.translate import translate
    choices = [c for c in block_choices(max_deps=1) if c[0] in ("a", "b")]
    n = 0
    for b1 in choices:
        for b2 in choices:
            seq = (b1, b2)
            mds = [{"metadata_type": "add_job_script", "name": nm, "script": script_of(nm, v), "depends_on": list(d)} for nm, v, d in seq]
            for placement in (0, 1):
                if placement == 0:
                    q = f"MetaData(MetaData(ds, {mds[0]!r}), {mds[1]!r}).Select(lambda e: e.Jets('A').Count())"
                    arrival = seq
                else:
                    q = f"MetaData(MetaData(ds, {mds[0]!r}).Where(lambda e: e.Jets('A').Count() > 0), {mds[1]!r}).Select(lambda e: e.Jets('A').Count())"
                    arrival = seq
                pkg = translate(q, "atlas")
                n += 1
                # func_adl reports metadata outermost first: arrival order at generate_script_block is (b2, b1)
                arr = (seq[1], seq[0])
                due = error_due(arr)
                if not pkg.ok:
                    if due is None:
                        rep.violation(f"exe-{n}", f"spurious error through executor: {pkg.exc_type}: {pkg.exc_msg} for {q}", {"query": q})
                    elif pkg.exc_type != "ValueError":
                        rep.violation(f"exe-{n}", f"wrong exception through executor: {pkg.exc_type}: {pkg.exc_msg} for {q}", {"query": q})
                    continue
                if due is not None:
                    rep.violation(f"exe-{n}", f"executor accepted blocks for which an error is due ({due}): {q}", {"query": q})
                    continue
                txt = pkg.files["ATestRun_eljob.py"].split("\n")
                try:
                    i0 = next(i for i, l in enumerate(txt) if l.strip() == "job.sampleHandler(sh)")
                    i1 = next(i for i, l in enumerate(txt) if "createAlgorithm('query'" in l)
                except StopIteration:
                    rep.violation(f"exe-{n}", "job options template anchors not found", {"query": q})
                    continue
                region = [l for l in txt[i0 + 1:i1] if l.strip() and not l.startswith("#")]
                everywhere = [l for l in txt if ":l1" in l or ":l2" in l or ":only" in l]
                bad = verify_output(arr, region)
                if bad or everywhere != region:
                    rep.violation(f"exe-{n}", f"rendered job options wrong: {bad or 'script lines outside their region'}: {q}", {"query": q, "region": region})
    n += repeated_lines_through_executor(rep)
    return n


def repeated_lines_through_executor(rep):
    """Blocks whose line texts recur (across blocks, inside one block, differing only in letter case): the rendered job
    options must contain every block's lines exactly, in the (here unique) dependency order."""
    from mc.core.translate import translate
    scen = {
        "shared-line": ([("a", ["from X import tool", "a = tool(1)"], []), ("b", ["from X import tool", "b = tool(2)"], ["a"])], ["a", "b"]),
        "repeat-inside": ([("a", ["#----", "x = 1", "#----", "y = 2"], [])], ["a"]),
        "case-only": ([("a", ["tool = mk('x')"], []), ("b", ["Tool = mk('x')"], ["a"])], ["a", "b"]),
        "three-sharing": ([("a", ["pass"], []), ("b", ["pass"], ["a"]), ("c", ["pass"], ["b"])], ["a", "b", "c"]),
        "blank-and-indent": ([("a", ["if x:", "    y = 1", "", "if z:", "    y = 1"], [])], ["a"]),
        # a block without lines is still a block: it can be depended on, and ordering chains run through it
        "non-ascii-lines": ([("a", ["# donn\u00e9es 2018 \u2013 p\u00e9riode K", "tag = '\u00b5Calib'"], []), ("b", ["tag2 = 'uCalib'", "# donnees 2018"], ["a"])], ["a", "b"]),
        "empty-dependency": ([("a", [], []), ("b", ["b = 1"], ["a"])], ["a", "b"]),
        "empty-in-the-middle": ([("a", ["a = 1"], []), ("b", [], ["a"]), ("c", ["c = 1"], ["b"])], ["a", "b", "c"]),
        "empty-alone": ([("a", [], [])], ["a"]),
        "empty-twice": ([("a", [], []), ("a", [], []), ("b", ["b = 1"], ["a"])], ["a", "b"]),
    }
    n = 0
    # the same name with scripts that differ only in white space (indentation, trailing blank) is a DIFFERENT script: ValueError
    for la, lb in ((["if flag:", "    run(1)"], ["if flag:", "run(1)"]), (["x = 1"], ["x = 1 "]), (["x = 1"], [" x = 1"]), (["x = 1", ""], ["x = 1"]), ([], ["x = 1"]), ([], [""])):
        for first, second in ((la, lb), (lb, la)):
            q = (f"MetaData(MetaData(ds, {{'metadata_type': 'add_job_script', 'name': 'w', 'script': {first!r}, 'depends_on': []}}), "
                 f"{{'metadata_type': 'add_job_script', 'name': 'w', 'script': {second!r}, 'depends_on': []}}).Select(lambda e: e.Jets('A').Count())")
            pkg = translate(q, "atlas")
            n += 1
            if pkg.ok or pkg.exc_type != "ValueError":
                rep.violation(f"exe-ws-{n}", f"same block name with scripts differing only in white space was not refused with ValueError ({'package returned' if pkg.ok else pkg.exc_type}): {first} vs {second}",
                              {"query": q, "scenario": "white-space-only-conflict"})
    for sname, (blocks, order) in scen.items():
        for perm in __import__("itertools").permutations(range(len(blocks))):
            src = "ds"
            for i in perm:
                nm, script, deps = blocks[i]
                src = f"MetaData({src}, {{'metadata_type': 'add_job_script', 'name': {nm!r}, 'script': {script!r}, 'depends_on': {deps!r}}})"
            q = src + ".Select(lambda e: e.Jets('A').Count())"
            pkg = translate(q, "atlas")
            n += 1
            if not pkg.ok:
                rep.violation(f"exe-rep-{sname}-{n}", f"blocks with repeated line texts refused: {pkg.exc_type}: {pkg.exc_msg} :: {q[:200]}", {"query": q})
                continue
            txt = pkg.files["ATestRun_eljob.py"].split("\n")
            i0 = next(i for i, l in enumerate(txt) if l.strip() == "job.sampleHandler(sh)")
            i1 = next(i for i, l in enumerate(txt) if "createAlgorithm('query'" in l)
            region = [l for l in txt[i0 + 1:i1] if not l.startswith("# Create the algorithm")]
            while region and region[0] == "":
                region.pop(0)
            while region and region[-1] == "":
                region.pop()
            want = [l for nm in order for l in dict((b[0], b[1]) for b in blocks)[nm]]
            got = [l for l in region]
            # the template puts an empty line after every inserted line
            got_nonempty = [l for l in got if l != ""]
            want_nonempty = [l for l in want if l != ""]
            if got_nonempty != want_nonempty:
                rep.violation(f"exe-rep-{sname}-{n}", f"rendered job options hold {got_nonempty} instead of {want_nonempty} for blocks {blocks} (arrival {perm})", {"query": q, "scenario": sname})
    return n


def main(tier="quick"):
    rep = Report(PROP, tier)
    known = F.load(PROP)
    if tier == "quick":
        maxlen, rest = 3, block_choices()
        firsts = block_choices()
    else:
        maxlen, rest = 4, block_choices()
        firsts = block_choices()
    res = par.pmap(worker, [(f, maxlen, rest) for f in firsts])
    # a second, smaller space: scripts that are prefixes / extensions of one another and the empty script, two names, <= 3 blocks
    rel = [(n, v, deps) for n in ("a", "b") for v in (0, 2, 3, 4) for k in range(3) for deps in itertools.combinations(("a", "b"), k)]
    res += par.pmap(worker, [(f, 3, rel) for f in rel])
    stats = Counter()
    recs = []
    distinct = 0
    for s, b, d in res:
        stats.update(s)
        recs += b
        distinct += d
    for i, r in enumerate(sorted(recs, key=lambda r: (len(r["sequence"]), str(r["sequence"])))):
        f = F.match(known, r)
        if f is not None:
            rep.known_finding(f["id"], f["what"], str(r["sequence"]))
            continue
        rep.violation(f"seq-{i}", f"{r['symptom']}: {r['detail']} for blocks {r['sequence']}", r)
    nexe = through_executor(rep, known)
    rep.set("states", stats["sequences"])          # each sequence prefix is a state (arrival history)
    rep.set("transitions", stats["sequences"])     # one block arrival per state extension
    rep.set("traces_validated_against_impl", stats["sequences"] + nexe)
    rep.set("counters", dict(stats))
    rep.set("through_executor", nexe)
    rep.set("distinct_ok_name_orders", distinct)
    rep.set("bounds", {"max_blocks": maxlen, "block_choices_first": len(firsts), "block_choices_rest": len(rest)})
    rep.sample({"blocks": [["a", 0, ["b"]], ["b", 1, []], ["a", 0, ["c"]]], "meaning": "(name, script variant, depends_on) in arrival order"})
    rep.sample({"blocks": [["c", 1, ["zz"]]], "expected": "ValueError (missing dependency)"})
    rep.assumptions += ["script lines of different (name, variant) pairs are distinct, so the emitted list can be parsed back into blocks unambiguously",
]
    return rep.finish(require={"traces_validated_against_impl": 10000})


if __name__ == "__main__":
    sys.exit(main(sys.argv[1] if len(sys.argv) > 1 else "quick"))
