"""C09 - unsupported or malformed queries are refused, never half-translated.

Every host program of the query grammar (up to an operator budget) x every expression position x every construct of
the unsupported menu that fits the position's kind is translated by the real translator: it must raise.  Plus
whole-query cases: raw object / raw event output, dict with **, wrong label counts, malformed / unknown metadata.
"""
import ast
import sys
from collections import Counter

from mc.core import findings as F
from mc.core import par
from mc.core.evidence import Report
from mc.core.pipeline import wrap_metadata
from mc.core.translate import parse_query, translate_ast
from mc.lang import graft, qgen

PROP = "C09"


def dead_position(host, where, backend, mds):
    """True iff the expression position of the host provably has no influence on the generated package: the host with
    that sub-expression replaced by two different constants translates to the same files (a projection whose result
    nothing downstream looks at is dropped by func_adl's chain simplification before the translator sees it)."""
    if where == "whole" or ":" not in where:
        return False
    from mc.lang.norm import digest_files
    idx = int(where.split(":", 1)[0])
    digs = []
    for const in (12345, 54321):
        tree = ast.parse(host, mode="eval").body
        t2 = graft._Replace(idx, lambda x, c=const: ast.Constant(c)).visit(tree)
        text2 = ast.unparse(ast.fix_missing_locations(t2))
        p = translate_ast(wrap_metadata(parse_query(text2), mds), backend, query_text=text2)
        if not p.ok:
            return False
        if "12345" in "".join(p.files.values()) or "54321" in "".join(p.files.values()):
            return False
        digs.append(digest_files(p.files))
    return digs[0] == digs[1]


def worker(args):
    backend, items, mds = args
    out = []
    for cid, where, kind, host, text in items:
        try:
            a = wrap_metadata(parse_query(text), mds)
        except SyntaxError:
            out.append((cid, kind, "unparsable", None))
            continue
        pkg = translate_ast(a, backend, query_text=text)
        if pkg.ok:
            src = pkg.files[pkg.source_name]
            i = src.find("execute ()" if backend == "atlas" else "Analyzer::analyze")
            body = src[i:i + 6000]
            out.append((cid, kind, "accepted", {"construct": cid, "position_kind": kind, "position": where, "host": host, "query": text, "backend": backend,
                                                 "dead_position": dead_position(host, where, backend, mds),
                                                 "code_excerpt": "\n".join(l for l in body.split("\n") if l.strip())[:1500]}))
        else:
            out.append((cid, kind, "refused:" + pkg.exc_type, None))
    return out


def ckind_name(backend):
    return {"atlas": "add_atlas_event_collection_info", "cms_aod": "add_cms_aod_event_collection_info", "cms_miniaod": "add_cms_miniaod_event_collection_info"}[backend]


def whole_query_cases(backend):
    a = qgen.ALPHA[backend]
    c = f"e.{a.primary}('A')"
    cases = [
        ("raw-object-column", f"ds.SelectMany(lambda e: {c}).Select(lambda j: j)"),
        ("raw-object-column", f"ds.Select(lambda e: {c}.First())"),
        ("raw-object-in-tuple", f"ds.SelectMany(lambda e: {c}).Select(lambda j: (j.pt(), j))"),
        ("raw-event-column", "ds.Select(lambda e: e)"),
        ("object-minus-object", f"ds.SelectMany(lambda e: {c}).Select(lambda j: j - j)"),
        ("object-plus-object-where", f"ds.Select(lambda e: {c}.Where(lambda j: (j + j) > 0).Count())"),
        ("object-times-number", f"ds.SelectMany(lambda e: {c}).Select(lambda j: j * 2)"),
        ("collection-plus-collection", f"ds.Select(lambda e: {c} + {c})"),
        ("collection-minus-collection-count", f"ds.Select(lambda e: ({c} - {c}).Count())"),
        ("event-plus-event", "ds.Select(lambda e: e + e)"),
        ("raw-event-where", "ds.Where(lambda e: True)"),
        ("raw-sequence-of-objects-column", f"ds.Select(lambda e: {c})"),
        ("dict-starstar", f"ds.Select(lambda e: {{'a': {c}.Count(), **{{'b': 1}}}})"),
        ("value-as-sequence-toplevel", f"ds.Select(lambda e: {c}.Count()).Select(lambda n: n.Select(lambda zz: zz + 1))"),
        ("selectmany-of-value", f"ds.SelectMany(lambda e: {c}.Count())"),
        ("too-few-labels", f"ResultTTree(ds.Select(lambda e: ({c}.Count(), 1)), ['a'], 'tree', 'file.root')"),
        ("too-many-labels", f"ResultTTree(ds.Select(lambda e: ({c}.Count(), 1)), ['a', 'b', 'c'], 'tree', 'file.root')"),
        ("zero-labels", f"ResultTTree(ds.Select(lambda e: {c}.Count()), [], 'tree', 'file.root')"),
        ("labels-for-scalar", f"ResultTTree(ds.Select(lambda e: {c}.Count()), ['a', 'b'], 'tree', 'file.root')"),
        ("wrong-label-count-with-repeat-3-for-2", f"ResultTTree(ds.Select(lambda e: ({c}.Count(), 1)), ['a', 'b', 'a'], 'tree', 'file.root')"),
        ("wrong-label-count-with-repeat-2-for-1", f"ResultTTree(ds.Select(lambda e: {c}.Count()), ['n', 'n'], 'tree', 'file.root')"),
        ("wrong-label-count-with-repeat-4-for-3", f"ResultTTree(ds.Select(lambda e: ({c}.Count(), 1, 2)), ['x', 'y', 'z', 'y'], 'tree', 'file.root')"),
        ("wrong-label-count-with-repeat-3-for-1", f"ResultTTree(ds.Select(lambda e: ({c}.Count(),)), ['x', 'x', 'x'], 'tree', 'file.root')"),
        ("wrong-label-count-with-repeat-per-object", f"ResultTTree(ds.SelectMany(lambda e: {c}).Select(lambda j: (j.pt(), j.eta())), ['pt', 'eta', 'pt'], 'tree', 'file.root')"),
        ("not-a-call", "ds"),
        ("aggregate-result-selector", f"ds.Select(lambda e: {c}.Select(lambda j: j.pt()).Aggregate(0.0, lambda acc, v: acc + v, lambda acc: acc * 1234.5))"),
        ("aggregate-result-selector-in-where", f"ds.Where(lambda e: {c}.Select(lambda j: j.pt()).Aggregate(0.0, lambda acc, v: acc + v, lambda acc: acc * 1234.5) > 1).Select(lambda e: {c}.Count())"),
        ("aggregate-four-arguments", f"ds.Select(lambda e: {c}.Select(lambda j: j.pt()).Aggregate(0, lambda acc, v: acc + v, lambda acc: acc, 1))"),
        ("aggregate-no-arguments", f"ds.Select(lambda e: {c}.Select(lambda j: j.pt()).Aggregate())"),
        ("count-with-argument", f"ds.Select(lambda e: {c}.Count(lambda j: j.pt() > 1))"),
        ("sum-with-argument", f"ds.Select(lambda e: {c}.Sum(lambda j: j.pt()))"),
    ]
    # an Aggregate whose initial value is not a number the backend can accumulate into (a pointer, declared through metadata)
    for tname in ("float*", "double*", "int**", "int*"):
        mdm = {"metadata_type": "add_method_type_info", "type_string": a.primary_cls, "method_name": "offs", "return_type": tname}
        mdf = {"metadata_type": "add_cpp_function", "name": "vmoffs", "include_files": [], "arguments": ["x"], "code": ["auto result = &x;"], "return_type": tname}
        cases += [
            (f"aggregate-pointer-seed-method:{tname}", f"MetaData(ds, {mdm!r}).Select(lambda e: {c}.Select(lambda j: j.tags().Aggregate(j.offs(), lambda acc, v: acc + v)))"),
            (f"aggregate-pointer-seed-function:{tname}", f"MetaData(ds, {mdf!r}).Select(lambda e: {c}.Select(lambda j: j.tags().Aggregate(vmoffs(j.pt()), lambda acc, v: acc + v)))"),
            (f"aggregate-pointer-seed-event:{tname}", f"MetaData(ds, {mdm!r}).Select(lambda e: {c}.Select(lambda j: j.pt()).Aggregate({c}.First().offs(), lambda acc, v: acc + v))"),
        ]
    cases += [
        ("unknown-metadata-type", f"MetaData(ds, {{'metadata_type': 'no_such_thing'}}).Select(lambda e: {c}.Count())"),
        ("missing-metadata-type", f"MetaData(ds, {{'name': 'x'}}).Select(lambda e: {c}.Count())"),
        ("unknown-toplevel-function", f"Frobnicate(ds.Select(lambda e: {c}.Count()))"),
        ("unknown-event-collection", "ds.Select(lambda e: e.NoSuchCollection('A').Count())"),
        ("collection-no-arg", f"ds.Select(lambda e: e.{a.primary}().Count())"),
        ("collection-two-args", f"ds.Select(lambda e: e.{a.primary}('A', 'B').Count())"),
        ("collection-nonstring-arg", f"ds.Select(lambda e: e.{a.primary}(1).Count())"),
        ("method-on-number", f"ds.Select(lambda e: {c}.Count().pt())"),
        ("free-name-after-selectmany", f"ds.SelectMany(lambda e: {c}).Select(lambda j: e.{a.secondary}('B').Count())"),
        ("free-name-after-select", f"ds.Select(lambda e: {c}).Select(lambda js: e.{a.secondary}('B').Count())"),
        ("free-name-after-where", f"ds.Where(lambda e: {c}.Count() > 0).Select(lambda ev: e.{a.secondary}('B').Count())"),
        ("collection-on-object", f"ds.Select(lambda e: {c}.Select(lambda j: j.{a.secondary}('B').Count()))"),
        ("lambda-two-params", f"ds.Select(lambda e: {c}.Select(lambda j, k: j.pt()))"),
        ("lambda-no-params", f"ds.Select(lambda e: {c}.Select(lambda: 1))"),
        ("lambda-star-params", f"ds.Select(lambda e: {c}.Select(lambda *j: 1))"),
        ("lambda-default-param", f"ds.Select(lambda e: {c}.Select(lambda j, k=2: j.pt()))"),
        ("lambda-where-two-params", f"ds.Select(lambda e: {c}.Where(lambda j, k: j.pt() > 1).Count())"),
        ("lambda-selectmany-no-params", f"ds.Select(lambda e: {c}.SelectMany(lambda: {c}).Count())"),
        ("lambda-aggregate-one-param", f"ds.Select(lambda e: {c}.Aggregate(0, lambda acc: acc + 1))"),
        ("lambda-aggregate-three-params", f"ds.Select(lambda e: {c}.Aggregate(0, lambda acc, v, w: acc + 1))"),
        ("lambda-event-two-params", f"ds.Select(lambda e, f: {c.replace('e.', 'e.')}.Count())"),
        ("object-equals-object", f"ds.Select(lambda e: {c}.Select(lambda j: j == j))"),
        ("object-greater-number", f"ds.Select(lambda e: {c}.Where(lambda j: j > 1).Count())"),
        ("not-object", f"ds.Select(lambda e: {c}.Select(lambda j: not j))"),
        ("not-collection", f"ds.Select(lambda e: not {c})"),
        ("range-bound-collection", f"ds.Select(lambda e: Range(0, {c}))"),
        ("index-by-object", f"ds.Select(lambda e: {c}[{c}.First()].pt())"),
        ("index-by-collection", f"ds.Select(lambda e: {c}[{c}].pt())"),
        ("builtin-function-surplus-argument", f"ds.Select(lambda e: {c}.Select(lambda j: DeltaR(j.eta(), j.phi(), 0.5, 0.25, j.pt())))"),
        ("builtin-function-missing-argument", f"ds.Select(lambda e: {c}.Select(lambda j: DeltaR(j.eta(), j.phi(), 0.5)))"),
        ("builtin-function-surplus-unsupported-argument", f"ds.Select(lambda e: {c}.Select(lambda j: DeltaR(j.eta(), j.phi(), 0.5, 0.25, 0 < j.pt() < 5)))"),
        ("declared-function-surplus-argument", "MetaData(ds, {'metadata_type': 'add_cpp_function', 'name': 'vmscale', 'include_files': [], 'arguments': ['x', 'y'], "
         f"'code': ['double result = x * y;'], 'return_type': 'double'}}).Select(lambda e: {c}.Select(lambda j: vmscale(j.pt(), 2, j.eta())))"),
        ("declared-function-missing-argument", "MetaData(ds, {'metadata_type': 'add_cpp_function', 'name': 'vmscale', 'include_files': [], 'arguments': ['x', 'y'], "
         f"'code': ['double result = x * y;'], 'return_type': 'double'}}).Select(lambda e: {c}.Select(lambda j: vmscale(j.pt())))"),
        ("declared-method-surplus-argument", "MetaData(ds, {'metadata_type': 'add_cpp_function', 'name': 'vmmeth', 'include_files': [], 'arguments': ['x'], "
         f"'code': ['double result = obj_j->pt() * x;'], 'method_object': 'obj_j', 'instance_object': '{a.primary_cls}', 'return_type': 'double'}})"
         f".Select(lambda e: {c}.Select(lambda j: j.vmmeth(2, j.eta())))"),
        ("undefined-name", f"ds.Select(lambda e: {c}.Select(lambda j: j.pt() + undefined_thing))"),
        ("unknown-function", f"ds.Select(lambda e: {c}.Select(lambda j: no_such_function(j.pt())))"),
        ("range-one-arg", "ds.Select(lambda e: Range(3))"),
        ("range-three-args", "ds.Select(lambda e: Range(0, 3, 1))"),
        ("first-with-arg", f"ds.Select(lambda e: {c}.First(1).pt())"),
        ("select-two-lambdas", f"ds.Select(lambda e: {c}.Select(lambda j: j.pt(), lambda j: j.eta()))"),
        ("where-non-lambda", f"ds.Select(lambda e: {c}.Where(1).Count())"),
        ("string-arithmetic", f"ds.Select(lambda e: {c}.Select(lambda j: j.pt() + 'a'))"),
        ("kwargs-math-function", f"ds.Select(lambda e: {c}.Select(lambda j: sin(j.pt(), y=1)))"),
        ("kwargs-math-function-only", f"ds.Select(lambda e: {c}.Select(lambda j: sin(x=j.pt())))"),
        ("kwargs-builtin-function", f"ds.Select(lambda e: {c}.Select(lambda j: DeltaR(j.eta(), j.phi(), 0.5, 0.25, extra=1)))"),
        ("kwargs-range", "ds.Select(lambda e: Range(0, 2, step=1))"),
        ("kwargs-first", f"ds.Select(lambda e: {c}.First(default=1).pt())"),
        ("kwargs-count", f"ds.Select(lambda e: {c}.Count(x=1))"),
        ("kwargs-where", f"ds.Select(lambda e: {c}.Where(lambda j: j.pt() > 1, flag=True).Count())"),
        ("kwargs-toplevel-select", f"ds.Select(lambda e: {c}.Count(), extra=1)"),
        ("kwargs-result-ttree", f"ResultTTree(ds.Select(lambda e: {c}.Count()), ['a'], 'tree', 'file.root', extra=1)"),
        ("kwargs-metadata", f"MetaData(ds, {{'metadata_type': 'add_job_script', 'name': 'n', 'script': ['x'], 'depends_on': []}}, extra=1).Select(lambda e: {c}.Count())"),
        ("kwargs-lambda-body-call", f"ds.Select(lambda e: {c}.Select(lambda j: abs(j.pt(), extra=1)))"),
        ("kwargs-starstar", f"ds.Select(lambda e: {c}.Select(lambda j: j.pt(**{{'a': 1}})))"),
    ]
    if backend == "atlas":
        cases.append(("kwargs-plugin-method", f"ds.Select(lambda e: {c}.Select(lambda j: j.getAttributeFloat('w', extra=1)))"))
        cases.append(("kwargs-collection-call", "ds.Select(lambda e: e.Jets('A', something=1).Count())"))
        cases.append(("kwargs-collection-call-bank", "ds.Select(lambda e: e.Jets(bank='A').Count())"))
    # required key missing for each metadata kind
    kinds = {
        "add_method_type_info": {"type_string": "xAOD::Jet", "method_name": "pt", "return_type": "int"},
        "add_job_script": {"name": "n", "script": ["x"], "depends_on": []},
        "add_cpp_function": {"name": "f", "include_files": [], "arguments": ["a"], "code": ["auto result = a;"], "return_type": "double"},
        {"atlas": "add_atlas_event_collection_info", "cms_aod": "add_cms_aod_event_collection_info", "cms_miniaod": "add_cms_miniaod_event_collection_info"}[backend]:
            {"name": "Things", "include_files": ["x.h"], "container_type": "C", "element_type": "E", "contains_collection": True},
        "define_enum": {"namespace": "NS", "name": "E", "values": ["A"]},
    }
    optional = {"depends_on"}
    for mt, full in kinds.items():
        for drop in full:
            if drop in optional:
                continue
            md = {"metadata_type": mt}
            md.update({k: v for k, v in full.items() if k != drop})
            cases.append((f"md-missing-key:{mt}.{drop}", f"MetaData(ds, {md!r}).Select(lambda e: {c}.Count())"))
        md = {"metadata_type": mt, "bogus_extra_key": 1}
        md.update(full)
        if "event_collection" in mt or mt == "inject_code":
            cases.append((f"md-extra-key:{mt}", f"MetaData(ds, {md!r}).Select(lambda e: {c}.Count())"))
    if backend == "atlas":
        cases.append(("plugin-method-surplus-argument", f"ds.Select(lambda e: {c}.Select(lambda j: j.getAttributeFloat('w', j.pt())))"))
        cases.append(("plugin-method-missing-argument", f"ds.Select(lambda e: {c}.Select(lambda j: j.getAttributeFloat()))"))
    # a value of the wrong KIND for every key of every metadata type (a string where a list of strings is wanted, a number
    # or None where a string is wanted, the string 'False' where a boolean is wanted, ...)
    full_md = dict(kinds)
    full_md["inject_code"] = {"name": "blk", "body_includes": ["a.h"], "ctor_lines": ["int x = 1;"], "link_libraries": ["libX"]}
    if backend == "atlas":
        full_md[ckind_name(backend)] = dict(full_md[ckind_name(backend)], link_libraries=["libT"])
    bad_values = {"str-for-list": "abc", "int": 5, "none": None, "list-of-int": [1, 2], "nested-list": [["a"]], "dict": {"a": 1}, "str-for-bool": "False", "list-for-str": ["a", "b"]}
    for mt, full in full_md.items():
        for k, v in full.items():
            for bn, bv in bad_values.items():
                if isinstance(v, list) and bn == "list-for-str":
                    continue
                if isinstance(v, str) and bn in ("str-for-list", "str-for-bool"):
                    continue
                if isinstance(v, bool) and bn == "int":
                    continue      # 0 / 1 for a flag: tolerated
                if type(bv) is type(v) and not (isinstance(v, list) and bn in ("list-of-int", "nested-list")):
                    continue
                md = {"metadata_type": mt}
                md.update(full)
                md[k] = bv
                cases.append((f"md-bad-value:{mt}.{k}:{bn}", f"MetaData(ds, {md!r}).Select(lambda e: {c}.Count())"))
    # a key that only another backend's collection declaration knows (it would be accepted and ignored)
    fk = dict(kinds[ckind_name(backend)])
    fk.update({"metadata_type": ckind_name(backend)})
    fk.update({"element_pointer": False} if backend == "atlas" else {"link_libraries": ["libX"]})
    cases.append(("md-foreign-backend-key", f"MetaData(ds, {fk!r}).Select(lambda e: {c}.Count())"))
    if backend == "atlas":
        def js(name, script, deps):
            return {"metadata_type": "add_job_script", "name": name, "script": script, "depends_on": deps}
        tail = f".Select(lambda e: {c}.Count())"
        def chain(*mds):
            src = "ds"
            for m in mds:
                src = f"MetaData({src}, {m!r})"
            return src + tail
        cases += [
            ("jobscript-unknown-dependency", chain(js("a", ["# a"], ["nope"]))),
            ("jobscript-unknown-dependency-on-first-duplicate", chain(js("a", ["# a"], ["nope"]), js("a", ["# a"], []))),
            ("jobscript-unknown-dependency-on-second-duplicate", chain(js("a", ["# a"], []), js("a", ["# a"], ["nope"]))),
            ("jobscript-unknown-dependency-on-middle-duplicate", chain(js("a", ["# a"], []), js("a", ["# a"], ["nope"]), js("a", ["# a"], []))),
            ("jobscript-cycle", chain(js("a", ["# a"], ["b"]), js("b", ["# b"], ["a"]))),
            ("jobscript-cycle-through-duplicate", chain(js("a", ["# a"], []), js("b", ["# b"], ["a"]), js("a", ["# a"], ["b"]))),
            ("jobscript-same-name-other-script", chain(js("a", ["# a"], []), js("a", ["# other"], []))),
            ("jobscript-self-dependency", chain(js("a", ["# a"], ["a"]))),
        ]
    # a collection declaration meant for ANOTHER backend (incl. the other CMS tier), the query using that collection
    for ob in ("atlas", "cms_aod", "cms_miniaod"):
        if ob == backend:
            continue
        od = {"metadata_type": ckind_name(ob), "name": "ForeignThings", "include_files": ["x.h"], "container_type": "std::vector<Thing>", "element_type": "Thing", "contains_collection": True}
        if ob != "atlas":
            od["element_pointer"] = False
        cases.append((f"md-collection-for-other-backend:{ob}", f"MetaData(ds, {od!r}).Select(lambda e: e.ForeignThings('A').Count())"))
        cases.append((f"md-collection-for-other-backend-unused:{ob}", f"MetaData(ds, {od!r}).Select(lambda e: {c}.Count())"))
    cases.append(("md-inject-unknown-field", f"MetaData(ds, {{'metadata_type': 'inject_code', 'name': 'b', 'no_such_field': ['x']}}).Select(lambda e: {c}.Count())"))
    return cases


def prior_queries(backend):
    """Queries translated EARLIER on the same executor object: each declares (through its own metadata) exactly the
    names the later whole-query cases use without declaring them.  The later query must still be refused."""
    a = qgen.ALPHA[backend]
    c = f"e.{a.primary}('A')"
    ckind = {"atlas": "add_atlas_event_collection_info", "cms_aod": "add_cms_aod_event_collection_info", "cms_miniaod": "add_cms_miniaod_event_collection_info"}[backend]
    coll = {"metadata_type": ckind, "name": "NoSuchCollection", "include_files": ["x.h"], "container_type": "std::vector<" + a.primary_cls + ">",
            "element_type": a.primary_cls, "contains_collection": True}
    if backend != "atlas":
        coll["element_pointer"] = False
    fn = lambda name: {"metadata_type": "add_cpp_function", "name": name, "include_files": [], "arguments": ["x"], "code": ["double result = x * 2;"], "return_type": "double"}  # noqa
    meth = {"metadata_type": "add_cpp_function", "name": "getAttribute", "include_files": [], "arguments": ["name"], "code": ["auto result = obj_j->getAttribute<float>(name);"],
            "method_object": "obj_j", "instance_object": a.primary_cls, "return_type": "float"}
    pri = [
        ("declares-function", f"MetaData(ds, {fn('no_such_function')!r}).Select(lambda e: {c}.Select(lambda j: no_such_function(j.pt())))"),
        ("declares-toplevel-name", f"MetaData(ds, {fn('Frobnicate')!r}).Select(lambda e: {c}.Select(lambda j: Frobnicate(j.pt())))"),
        ("declares-undefined-name", f"MetaData(ds, {fn('undefined_thing')!r}).Select(lambda e: {c}.Select(lambda j: undefined_thing(j.pt())))"),
        ("declares-collection", f"MetaData(ds, {coll!r}).Select(lambda e: e.NoSuchCollection('A').Count())"),
        ("declares-getattribute-method", f"MetaData(ds, {meth!r}).Select(lambda e: {c}.Select(lambda j: j.getAttribute('emf')))"),
        ("plain", f"ds.Select(lambda e: {c}.Count())"),
    ]
    return pri


def history_worker(args):
    "prior query, then the must-refuse query, on ONE executor object (and once more on a second, newly created one)"
    from mc.core.translate import _executor_class
    backend, pname, ptext, items, mds = args
    out = []
    for cid, text in items:
        for same in (True, False):
            exe = _executor_class(backend)()
            p0 = translate_ast(wrap_metadata(parse_query(ptext), mds), backend, query_text=ptext, executor=exe, fresh=True)
            exe2 = exe if same else _executor_class(backend)()
            pkg = translate_ast(wrap_metadata(parse_query(text), mds), backend, query_text=text, executor=exe2, fresh=False)
            out.append((cid, pname, same, p0.ok, pkg.ok, {"construct": cid, "position_kind": "whole-after-history", "position": "whole", "host": text, "query": text,
                                                            "backend": backend, "prior": pname, "prior_query": ptext, "same_executor": same,
                                                            "code_excerpt": ""} if pkg.ok else None))
    return out


def main(tier="quick"):
    rep = Report(PROP, tier)
    known = F.load(PROP)
    kmax = {"quick": {"atlas": 3, "cms_aod": 2, "cms_miniaod": 2}, "thorough": {"atlas": 4, "cms_aod": 3, "cms_miniaod": 3}}[tier]
    work = []
    total = 0
    hosts = 0
    for backend, km in kmax.items():
        g = qgen.Gen(backend)
        mds = tuple(qgen.method_metadata(qgen.ALPHA[backend]))
        items = []
        for k in range(1, km + 1):
            for term in g.queries(k):
                host = qgen.render(term)
                hosts += 1
                for cid, where, kind, text in graft.grafts(host):
                    if cid.startswith("getattribute") and backend != "atlas":
                        continue    # getAttribute is an xAOD::Jet plug-in; on CMS it is an ordinary (unknown) method name
                    items.append((cid, where, kind, host, text))
        for cid, text in whole_query_cases(backend):
            items.append((cid, "whole", "whole", text, text))
        total += len(items)
        for i in range(0, len(items), 200):
            work.append((backend, items[i:i + 200], mds))
    res = par.pmap(worker, work)
    stats = Counter()
    per_construct = {}
    n = 0
    for chunk in res:
        for cid, kind, status, rec in chunk:
            stats[status.split(":")[0]] += 1
            per_construct.setdefault(cid, Counter())[status.split(":")[0]] += 1
            if status.startswith("refused:"):
                stats["exc_" + status.split(":")[1]] += 1
            if rec is not None:
                n += 1
                f = F.match(known, rec)
                if f is not None:
                    rep.known_finding(f["id"], f["what"], rec["query"][:140])
                    continue
                rep.violation(f"{rec['backend']}-{n}", f"accepted instead of refused: construct {cid} at {rec['position']} [{rec['backend']}]: {rec['query'][:300]}", rec)
    # ---- the same must-refuse queries after an earlier query on the same executor object declared the missing name
    hwork = []
    for backend in kmax:
        mds = tuple(qgen.method_metadata(qgen.ALPHA[backend]))
        items = list(whole_query_cases(backend))
        if backend == "atlas":
            items.append(("templated-getattribute", "ds.Select(lambda e: e.Jets('A').Select(lambda j: j.getAttribute('emf')))"))
        for pname, ptext in prior_queries(backend):
            hwork.append((backend, pname, ptext, items, mds))
    hstats = Counter()
    for chunk in par.pmap(history_worker, hwork):
        for cid, pname, same, p_ok, ok, rec in chunk:
            hstats["history_pairs"] += 1
            hstats["prior_translated"] += int(p_ok)
            if rec is not None:
                n += 1
                f = F.match(known, rec)
                if f is not None:
                    rep.known_finding(f["id"], f["what"], rec["query"][:140])
                    continue
                rep.violation(f"{rec['backend']}-hist-{n}", f"accepted instead of refused after the earlier query '{pname}' ({'same' if same else 'new'} executor): construct {cid} "
                              f"[{rec['backend']}]: {rec['query'][:200]}", rec)
    if hstats["prior_translated"] < hstats["history_pairs"] * 0.6:
        raise RuntimeError(f"harness: most prior queries do not translate ({dict(hstats)}): the history dimension is vacuous")
    stats.update(hstats)
    total += hstats["history_pairs"]
    rep.set("states", hosts + total)
    rep.set("transitions", total)
    rep.set("traces_validated_against_impl", total - stats["unparsable"])
    rep.set("counters", dict(stats))
    rep.set("per_construct", {k: dict(v) for k, v in sorted(per_construct.items())})
    rep.set("bounds", {"host_operator_budget": kmax})
    rep.sample({"host": "ds.Select(lambda e: e.Jets('A').Select(lambda j1: j1.pt()))", "graft": "floordiv at j1.pt()",
                "query": "ds.Select(lambda e: e.Jets('A').Select(lambda j1: j1.pt() // 2))"})
    rep.assumptions += ["a graft that Python itself cannot parse is skipped (counted as unparsable)",
                        "any exception type counts as a refusal; a returned package for a menu construct is a violation"]
    return rep.finish(require={"traces_validated_against_impl": 2000})


if __name__ == "__main__":
    sys.exit(main(sys.argv[1] if len(sys.argv) > 1 else "quick"))
