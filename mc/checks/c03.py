"""C03 - output tree schema and returned descriptor match the query's final shape.

All terminal forms (bare value, tuple, list, dict, 1-D and 2-D sequences, explicit ResultTTree with names in all
orders and every wrong label count) x a column-expression menu hitting every typing rule x three backends.  Oracle:
the (branch name, C++ type) list recorded by the stand-in TTree::Branch at booking, distinct storage per branch,
per-column values through the bound addresses, and the descriptor (tree / file name) against what the job writes.
"""
import itertools
import re
import sys
from collections import Counter

from mc.checks.c01 import classify_event
from mc.core import findings as F
from mc.core.evidence import Report
from mc.core.pipeline import Case, execute
from mc.edm.events import small_domain
from mc.lang import qgen

PROP = "C03"

# object-level column expressions -> acceptable C++ element types
COLS = [
    ("j.nTrk()", {"int"}), ("2", {"int"}), ("j.q()", {"float"}), ("j.pt()", {"double"}), ("(j.pt() > 1)", {"bool"}), ("j.isGood()", {"bool"}),
    ("(j.nTrk() / 2)", {"double"}), ("(j.nTrk() if j.pt() > 1 else 2)", {"double", "float"}), ("(j.nTrk() + 1)", {"int"}), ("(j.q() * 2)", {"float", "double"}),
    ("(j.q() + j.pt())", {"double"}), ("j.tags().Count()", {"int"}), ("j.tags().Sum()", {"float", "double"}), ("abs(j.pt())", {"double"}),
    ("(j.pt() ** 2)", {"double"}), ("(-j.nTrk())", {"int"}), ("j.eta()", {"double"}),
    # a float literal stays floating whatever its value: alone and next to integer operands
    # a conditional is floating whatever its test is - also a literal True / False (what a captured python flag becomes)
    ("(j.nTrk() if True else 2)", {"double", "float"}), ("(1 if False else j.nTrk())", {"double", "float"}), ("(j.nTrk() if vm_const(True) else 2.5)", {"double", "float"}),
    ("2.0", {"double"}), ("1e10", {"double"}), ("(j.nTrk() * 2.0)", {"double"}), ("(j.nTrk() + 1.0)", {"double"}), ("(3 - 1.0)", {"double"}), ("(j.nTrk() * 2.5)", {"double"}),
]
NAMES = ["a", "b", "col1", "x_1", "pt2"]


def build(backend):
    a = qgen.ALPHA[backend]
    coll = f"e.{a.primary}('A')"
    per = "ds.SelectMany(lambda e: " + coll + ").Select(lambda j: {})"
    cases = []

    def add(form, q, names, types, raises=False, dims=None):
        cases.append({"form": form, "query": q, "names": names, "types": types, "raises": raises})
    # bare
    for e, t in COLS:
        add("bare", per.format(e), None, [t])
    core = COLS[:8]
    for (e1, t1), (e2, t2) in itertools.permutations(core, 2):
        add("tuple2", per.format(f"({e1}, {e2})"), None, [t1, t2])
    for (e1, t1), (e2, t2) in itertools.permutations(core[:5], 2):
        add("list2", per.format(f"[{e1}, {e2}]"), None, [t1, t2])
    for (e1, t1), (e2, t2), (e3, t3) in itertools.permutations(core[:4], 3):
        add("tuple3", per.format(f"({e1}, {e2}, {e3})"), None, [t1, t2, t3])
    for n1, n2 in itertools.permutations(NAMES, 2):
        (e1, t1), (e2, t2) = core[0], core[3]
        add("dict2", per.format(f"{{'{n1}': {e1}, '{n2}': {e2}}}"), [n1, n2], [t1, t2])
        add("explicit2", f"ResultTTree({per.format(f'({e1}, {e2})')}, ['{n1}', '{n2}'], 'mytree', 'file.root')", [n1, n2], [t1, t2])
    for n1, n2, n3 in itertools.permutations(NAMES[:4], 3):
        (e1, t1), (e2, t2), (e3, t3) = core[2], core[4], core[6]
        add("dict3", per.format(f"{{'{n1}': {e1}, '{n2}': {e2}, '{n3}': {e3}}}"), [n1, n2, n3], [t1, t2, t3])
    # tree names that are not identifiers: the descriptor names the tree the job books and fills, character for character
    for tn in ("muon-tree", "run2.muons", "my tree", "t", "Tree_1", "muons/v1"):
        add(f"explicit-tree-name:{tn}", f"ResultTTree({per.format('(j.pt(), j.nTrk())')}, ['a', 'b'], {tn!r}, 'file.root')", ["a", "b"], [{"double"}, {"int"}])
    # names outside ASCII, with every kind of neighbour after the non-ASCII character (hex digit, other letter, digit, nothing):
    # the branch the job books carries the name character for character (in the file's encoding, UTF-8)
    UNI = ["\u0394eta", "d\u03bc0", "\u0394phi", "\u00e91", "\u03bc", "\u0394R"]
    for n1, n2 in itertools.permutations(UNI, 2):
        (e1, t1), (e2, t2) = core[0], core[3]
        add("dict2-unicode", per.format(f"{{'{n1}': {e1}, '{n2}': {e2}}}"), [n1, n2], [t1, t2])
    for n1 in UNI:
        (e1, t1), (e2, t2) = core[0], core[3]
        add("explicit2-unicode", f"ResultTTree({per.format(f'({e1}, {e2})')}, ['{n1}', 'b'], 'mytree', 'file.root')", [n1, "b"], [t1, t2])
        add(f"explicit-tree-name:{n1}", f"ResultTTree({per.format('(j.pt(), j.nTrk())')}, ['a', 'b'], 'jets_{n1}_tree', 'file.root')", ["a", "b"], [{"double"}, {"int"}])
    # explicit single name given as a bare string
    add("explicit1-str", f"ResultTTree({per.format('j.pt()')}, 'solo', 'mytree', 'file.root')", ["solo"], [{"double"}])
    # wrong label counts must raise
    for ncols in (1, 2, 3):
        tup = ", ".join(e for e, _ in core[:ncols])
        out = f"({tup},)" if ncols == 1 else f"({tup})"
        for nlabels in range(0, ncols + 2):
            if nlabels == ncols:
                continue
            labels = NAMES[:nlabels]
            add("wrong-count", f"ResultTTree({per.format(out)}, {labels!r}, 'mytree', 'file.root')", None, None, raises=True)
    # event level: scalar, 1-D vectors of every kind, 2-D, mixtures
    add("ev-scalar-float-literal", f"ds.Select(lambda e: {coll}.Count() * 2.0)", None, [{"double"}])
    add("ev-scalar-float-literal-dict", f"ds.Select(lambda e: {{'n': {coll}.Count(), 'twice': {coll}.Count() * 2.0, 'big': {coll}.Count() * 1e10, 'half': {coll}.Count() * 0.5}})",
        ["n", "twice", "big", "half"], [{"int"}, {"double"}, {"double"}, {"double"}])
    add("ev-scalar", f"ds.Select(lambda e: {coll}.Count())", None, [{"int"}])
    for e, t in COLS:
        vt = {f"std::vector<{x}>" for x in t}
        add("ev-1d", f"ds.Select(lambda e: {coll}.Select(lambda j: {e}))", None, [vt])
    add("ev-1d-literal-test", f"ds.Select(lambda e: {coll}.Select(lambda j: (j.nTrk() if True else 2)))", None, [{"std::vector<double>", "std::vector<float>"}])
    add("ev-scalar-literal-test", f"ds.Select(lambda e: ({coll}.Count() if False else {coll}.Count() + 1))", None, [{"double", "float"}])
    add("ev-2d", f"ds.Select(lambda e: {coll}.Select(lambda j: j.tags().Select(lambda t: t * 2)))", None, [{"std::vector<std::vector<float>>", "std::vector<std::vector<double>>"}])
    add("ev-2d-int", f"ds.Select(lambda e: {coll}.Select(lambda j: j.parts().Select(lambda p: p.nTrk())))", None, [{"std::vector<std::vector<int>>"}])
    add("ev-mixed-tuple", f"ds.Select(lambda e: ({coll}.Count(), {coll}.Select(lambda j: j.q()), {coll}.Select(lambda j: j.isGood())))", None,
        [{"int"}, {"std::vector<float>"}, {"std::vector<bool>"}])
    add("ev-mixed-dict", f"ds.Select(lambda e: {{'n': {coll}.Count(), 'pts': {coll}.Select(lambda j: j.pt()), 'tg': {coll}.Select(lambda j: j.tags().Select(lambda t: t))}})",
        ["n", "pts", "tg"], [{"int"}, {"std::vector<double>"}, {"std::vector<std::vector<float>>"}])
    add("ev-where-1d", f"ds.Where(lambda e: {coll}.Count() > 0).Select(lambda e: {coll}.Where(lambda j: j.pt() > 0).Select(lambda j: j.nTrk()))", None, [{"std::vector<int>"}])
    # a declared tree_type decides the column type in every shape (scalar, vector, vector of vectors, inside tuples)
    tt = ({"metadata_type": "add_method_type_info", "type_string": a.primary_cls, "method_name": "q", "return_type": "float", "tree_type": "double"},)
    def add_tt(form, q, names, types):
        cases.append({"form": form, "query": q, "names": names, "types": types, "raises": False, "extra_md": tt})
    add_tt("tree-type-scalar", per.format("j.q()"), None, [{"double"}])
    add_tt("tree-type-tuple", per.format("(j.nTrk(), j.q())"), None, [{"int"}, {"double"}])
    add_tt("tree-type-vector", f"ds.Select(lambda e: {coll}.Select(lambda j: j.q()))", None, [{"std::vector<double>"}])
    add_tt("tree-type-vector-dict", f"ds.Select(lambda e: {{'n': {coll}.Count(), 'qs': {coll}.Select(lambda j: j.q())}})", ["n", "qs"], [{"int"}, {"std::vector<double>"}])
    add_tt("tree-type-vector-where", f"ds.Select(lambda e: {coll}.Where(lambda j: j.pt() > 0).Select(lambda j: j.q()))", None, [{"std::vector<double>"}])
    # a const-qualified by-value return type: the qualifier says nothing about the column's storage
    for ct, want in (("const float", "float"), ("const int", "int"), ("const double", "double"), ("const short", "short"), ("const  int", "int")):
        cmd = ({"metadata_type": "add_method_type_info", "type_string": a.primary_cls, "method_name": "q" if "float" in ct else ("nTrk" if ("int" in ct or "short" in ct) else "eta"), "return_type": ct},)
        m = cmd[0]["method_name"]
        for form, q, names, types in ((f"const-return-scalar:{want}", per.format(f"j.{m}()"), None, [{want}]),
                                      (f"const-return-vector:{want}", f"ds.Select(lambda e: {coll}.Select(lambda j: j.{m}()))", None, [{f"std::vector<{want}>"}]),
                                      (f"const-return-first:{want}", f"ds.Select(lambda e: {coll}.First().{m}())", None, [{want}]),
                                      (f"const-return-sum:{want}", f"ds.Select(lambda e: {coll}.Select(lambda j: j.{m}()).Sum())", None, [{want, "double"} if want != "int" else {"int"}])):
            if want == "short" and "sum" in form:
                continue      # a Sum over short elements is refused (the accumulator types known are int, float, double): C13's business
            cases.append({"form": form, "query": q, "names": names, "types": types, "raises": False, "extra_md": cmd})
    add_tt("tree-type-2d", f"ds.Select(lambda e: {coll}.Select(lambda j: j.parts().Select(lambda p: p.q())))", None, [{"std::vector<std::vector<double>>"}])
    # columns typed by the BACKEND's own default method table (no declaration in the query), on a fresh executor and on an
    # executor that has already translated / failed to translate another query
    if backend != "atlas":
        md0 = list(qgen.method_metadata(a))
        priors = {"fresh": None, "after-ok": [(f"ds.Select(lambda e: {coll}.Count())", md0)], "after-failed": [(f"ds.Select(lambda e: {coll}.Select(lambda j: j.pt() // 2))", md0)],
                  "after-two": [(f"ds.Select(lambda e: {coll}.Count())", md0), (per.format("j.isPFMuon()"), md0)]}
        for pn, pr in priors.items():
            for form, q, names, types in (
                    ("default-typed-scalar", per.format("j.isPFMuon()"), None, [{"bool"}]),
                    ("default-typed-vector", f"ds.Select(lambda e: {coll}.Select(lambda j: j.isPFMuon()))", None, [{"std::vector<bool>"}]),
                    ("default-typed-dict", f"ds.Select(lambda e: {{'n': {coll}.Count(), 'pf': {coll}.Select(lambda j: j.isPFMuon())}})", ["n", "pf"], [{"int"}, {"std::vector<bool>"}])):
                cases.append({"form": f"{form}:{pn}", "query": q, "names": names, "types": types, "raises": False})
                if pr:
                    cases[-1]["prior"] = pr
    # event-level rows whose columns are computed in DIFFERENT blocks: a First()-derived scalar (set inside the loop and the
    # first-flag test), an aggregate (set after its loop), a vector (pushed inside its loop), a constant - every order
    other = f"e.{a.secondary}('B')"
    ev_cols = [(f"{coll}.First().eta()", {"double"}), (f"{coll}.Count()", {"int"}), (f"{coll}.Select(lambda j: j.pt())", {"std::vector<double>"}),
               (f"{other}.First().pt()", {"double"}), (f"{coll}.Select(lambda j: j.nTrk()).Sum()", {"int"}), ("7", {"int"})]
    for (e1, t1), (e2, t2) in itertools.permutations(ev_cols, 2):
        add("ev-mixed-scopes-dict", f"ds.Select(lambda e: {{'a': {e1}, 'b': {e2}}})", ["a", "b"], [t1, t2])
    for (e1, t1), (e2, t2), (e3, t3) in itertools.permutations(ev_cols[:4], 3):
        add("ev-mixed-scopes-tuple3", f"ds.Select(lambda e: ({e1}, {e2}, {e3}))", None, [t1, t2, t3])
    # ONE value bound to a lambda parameter supplies two (or three) columns: every branch still needs storage of its own that the
    # event code sets, fills and clears
    rep_heads = {"obj-scalar": (f"ds.SelectMany(lambda e: {coll}).Select(lambda j: j.pt())", {"double"}),
                 "obj-int": (f"ds.SelectMany(lambda e: {coll}).Select(lambda j: j.nTrk())", {"int"}),
                 "ev-count": (f"ds.Select(lambda e: {coll}.Count())", {"int"}),
                 "ev-vector": (f"ds.Select(lambda e: {coll}.Select(lambda j: j.pt()))", {"std::vector<double>"})}
    for hk, (h, t) in rep_heads.items():
        add(f"repeated-value-dict2:{hk}", f"{h}.Select(lambda p: {{'first': p, 'again': p}})", ["first", "again"], [t, t])
        add(f"repeated-value-tuple2:{hk}", f"{h}.Select(lambda p: (p, p))", None, [t, t])
        add(f"repeated-value-explicit3:{hk}", f"ResultTTree({h}.Select(lambda p: (p, p, p)), ['x', 'y', 'z'], 'mytree', 'file.root')", ["x", "y", "z"], [t, t, t])
        if "vector" not in hk:
            t2 = {"double"} if t == {"double"} else {"int"}
            add(f"repeated-value-mixed3:{hk}", f"{h}.Select(lambda p: (p, p + 1, p))", None, [t, t2, t])
            add(f"repeated-value-dict3:{hk}", f"{h}.Select(lambda p: {{'a': p, 'b': p * 2, 'c': p}})", ["a", "b", "c"], [t, t2, t])
    # integer arithmetic with a literal beyond 32 bits: the column must be wide enough for the value (or the query refused)
    wide = {"long long", "long", "Long64_t", "int64_t"}
    for k, e in {"add-right": "(j.nTrk() + 4294967296)", "add-left": "(4294967296 + j.nTrk())", "mul-right": "(j.nTrk() * 3000000000)", "mul-left": "(3000000000 * j.nTrk())",
                 "sub-right": "(j.nTrk() - 4294967296)", "mod-right": "(j.nTrk() % 4294967296)"}.items():
        add(f"int64-arith:{k}", per.format(e), None, [wide])
    add("int64-arith:ev-count", f"ds.Select(lambda e: {coll}.Count() + 4294967296)", None, [wide])
    add("int64-arith:ev-vector", f"ds.Select(lambda e: {coll}.Select(lambda j: j.nTrk() * 4294967296))", None, [{f"std::vector<{w}>" for w in wide}])
    add("int64-arith:dict", f"ds.Select(lambda e: {{'n': {coll}.Count() + 4294967296, 'm': 4294967296 + {coll}.Count()}})", ["n", "m"], [wide, wide])
    add("selectmany-scalar", f"ds.SelectMany(lambda e: {coll}.Select(lambda j: j.q()))", None, [{"float"}])
    return cases


def output_name_from_package(pkg):
    "The file name the backend's job configuration / runner actually writes."
    r = pkg.files.get("runner.sh", "")
    m = re.search(r"export CMS_OUTPUT_FILE=(\S+)", r)
    if m:
        return m.group(1)
    m = re.search(r"data-ANALYSIS/(\S+\.root)", r)
    if m:
        return m.group(1)
    return None


def post(outs, events):
    stats = Counter()
    recs = []
    schemas = set()
    for o in outs:
        c = o.case
        info = c.info
        base = {"form": info["form"], "query": c.text, "backend": c.backend}
        if info["raises"]:
            stats["must_raise"] += 1
            if o.status != "refused":
                recs.append(dict(base, symptom="label-count-mismatch-accepted"))
            continue
        if o.status == "refused":
            recs.append(dict(base, symptom="refused", exc=f"{o.pkg.exc_type}: {o.pkg.exc_msg}"[:200]))
            continue
        if o.status == "compile_fail":
            recs.append(dict(base, symptom="compile-fail", error="; ".join(o.errors[:2])[:250]))
            continue
        stats["accepted"] += 1
        job = o.jobs[0] if o.jobs else None
        if job is None or not job.schema:
            recs.append(dict(base, symptom="no-tree-booked"))
            continue
        if len(job.schema) != 1:
            recs.append(dict(base, symptom="several-trees", observed=str(job.schema)[:200]))
            continue
        tree, cols, flags = job.schema[0]
        schemas.add((tuple(n for n, _ in cols), tuple(t for _, t in cols)))
        probs = []
        names = [n for n, _ in cols]
        types = [t for _, t in cols]
        if flags:
            probs.append(f"two branches share one storage: {flags}")
        if len(cols) != len(info["types"]):
            probs.append(f"{len(cols)} columns booked, {len(info['types'])} expected: {cols}")
        else:
            if info["names"] is not None and names != info["names"]:
                probs.append(f"column names {names} instead of {info['names']}")
            if len(set(names)) != len(names):
                probs.append(f"column names not distinct: {names}")
            for k, (t, ok) in enumerate(zip(types, info["types"])):
                if t not in ok:
                    probs.append(f"column {k} ({names[k]}) booked as {t}, expected one of {sorted(ok)}")
        # descriptor
        if o.pkg.treename != tree:
            probs.append(f"descriptor tree name {o.pkg.treename!r} but the job books {tree!r}")
        fill_trees = {r[0] for j in o.jobs for e in j.events for r in e.rows}
        if fill_trees - {tree}:
            probs.append(f"rows are filled into {sorted(fill_trees)} but the booked tree is {tree!r}")
        out_name = info.get("_outname")
        for p in probs:
            recs.append(dict(base, symptom="schema", problem=p))
        # values through the bound addresses
        first = None
        for j in o.jobs:
            if not j.events:
                continue
            er = j.events[0]
            r = classify_event(c.text, events[er.event], er)
            stats["executions"] += 1
            if isinstance(r, dict) and first is None and not r.get("explained_by"):
                first = r
        if first is not None:
            first.update(base)
            recs.append(first)
        stats["schemas_checked"] += 1
    return stats, recs, schemas


def main(tier="quick"):
    rep = Report(PROP, tier)
    known = F.load(PROP)
    events = small_domain()[:18] if tier == "quick" else small_domain()
    cases = []
    pid = 0
    for backend in ("atlas", "cms_aod", "cms_miniaod"):
        md = tuple(qgen.method_metadata(qgen.ALPHA[backend]))
        for c in build(backend):
            cases.append(Case(pid, backend, c["query"], tuple(c.get("extra_md", ())) + md, c))
            pid += 1
    res = execute(cases, events, chunk_size=50, post=post)
    # descriptor file name: read from the rendered job configuration, once per backend
    from mc.core.pipeline import translate_case
    for backend in ("atlas", "cms_aod", "cms_miniaod"):
        c = next(c for c in cases if c.backend == backend and not c.info["raises"])
        pkg = translate_case(c)
        on = output_name_from_package(pkg)
        if on is None:
            raise RuntimeError("harness: cannot find the output file name in the rendered runner.sh")
        if pkg.filename != on:
            rep.violation(f"filename-{backend}", f"descriptor file name {pkg.filename!r} but the {backend} job writes {on!r}", {"backend": backend})
    stats = Counter()
    recs = []
    schemas = set()
    for s, r, sc in res:
        stats.update(s)
        recs += r
        schemas |= sc
    for i, r in enumerate(sorted(recs, key=lambda r: (r["form"], r["backend"], r["query"]))):
        f = F.match(known, r)
        if f is not None:
            rep.known_finding(f["id"], f["what"], r["query"][:120])
            continue
        rep.violation(f"{r['backend']}-{r['form']}-{i}", f"{r['symptom']} [{r['backend']}] form {r['form']}: {r['query'][:220]} :: " +
                      str({k: r[k] for k in ("problem", "exc", "error", "expected", "observed") if k in r})[:300], r)
    rep.set("states", len(cases))
    rep.set("transitions", len(cases))
    rep.set("traces_validated_against_impl", stats["schemas_checked"] + stats["must_raise"] + stats["executions"])
    rep.set("counters", dict(stats))
    rep.set("distinct_schemas", len(schemas))
    rep.sample({"form": cases[0].info["form"], "query": cases[0].text})
    rep.sample({"form": cases[-1].info["form"], "query": cases[-1].text})
    rep.assumptions += ["expected element types follow the documented rules (undeclared method -> double, '/' and conditionals floating, comparisons bool, counts int); "
                        "where the statement leaves the width open (Sum of floats, float*int) both float and double are accepted",
                        "default positional names are only required to be distinct and as many as the columns"]
    return rep.finish(require={"traces_validated_against_impl": 500, "distinct_schemas": 20})


if __name__ == "__main__":
    sys.exit(main(sys.argv[1] if len(sys.argv) > 1 else "quick"))
