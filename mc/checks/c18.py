"""C18 - constants in a query denote the same value in the generated code.

Literal space x position, exhaustively: integers around the 32/64-bit edges, floats in every notation Python prints,
booleans, and ALL strings of length <= 2 (thorough <= 3) over an alphabet containing quote, apostrophe, backslash,
percent, braces, newline, non-ASCII and semicolon; positions: argument of a model method that echoes it, operand of a
comparison, bare output column, bank name, attribute name, tree name, column names, dict keys.  The compiled job must
observe the same value / bytes and kind - or translation must have raised.
"""
import ast
import itertools
import struct
import sys
from collections import Counter

from mc.core import findings as F
from mc.core.evidence import Report
from mc.core.pipeline import Case, execute
from mc.cxx.build import parse_value
from mc.edm.events import Event, Obj
from mc.lang import qgen

PROP = "C18"

INTS = [0, 1, -1, 7, 2**31 - 1, 2**31, -2**31, -2**31 - 1, 2**32, 2**63 - 1, 2**63, 10**30]
FLOATS = ["0.0", "-0.0", "0.5", "0.1", "0.3333333333333333", "1e-07", "1.5e-10", "1e+16", "1e+22", "1.7976931348623157e+308", "5e-324", "1e999",
          "123456789.125", "2.5e-05", "1e16", "100000.0", "1.0"]
SIGMA = ["a", "Z", "0", " ", "\"", "'", "\\", "%", "{", "}", "\n", "é", ";", "\x01", "\x7f", "/", "*", "#", "\u2028", "\x85", "?", "\u0301", "\u212a"]


def strings(maxlen):
    out = [""]
    for n in range(1, maxlen + 1):
        out += ["".join(t) for t in itertools.product(SIGMA, repeat=n)]
    return out


def events():
    o = Obj(pt=2.5, eta=0.5, phi=0.25, nTrk=3, q=0.5, good=True, tags=(0.5,), attrs=(("w", 2.0),))
    return [Event(0, (("A", (o,)), ("B", ()), ("EI", (o,))))]


def echo_metadata(cls):
    return [
        {"metadata_type": "add_method_type_info", "type_string": cls, "method_name": "echoI", "return_type": "int"},
        {"metadata_type": "add_method_type_info", "type_string": cls, "method_name": "echoB", "return_type": "bool"},
        {"metadata_type": "add_method_type_info", "type_string": cls, "method_name": "echoS", "return_type": "int"},
        {"metadata_type": "add_method_type_info", "type_string": cls, "method_name": "kind", "return_type": "int"},
    ]


def build_cases(tier, backend):
    a = qgen.ALPHA[backend]
    coll, cls = a.primary, a.primary_cls
    per = f"ds.SelectMany(lambda e: e.{coll}('A')).Select(lambda j: {{}})"
    cases = []

    def add(kind, pos, lit, q, expect):
        cases.append({"lit_kind": kind, "position": pos, "literal": lit, "query": q, "expect": expect})
    for v in INTS:
        t = repr(v)
        add("int", "echo-arg", t, per.format(f"j.echoD({t})"), ("value", float(v)))
        add("int", "kind-arg", t, per.format(f"j.kind({t})"), ("kind", "integral"))
        add("int", "compare", t, per.format(f"j.pt() > {t}"), ("value", 2.5 > v))
        add("int", "column", t, per.format(t), ("intvalue", v))
        add("int", "arith", t, per.format(f"j.pt() + {t}"), ("value", 2.5 + v))
    for t in FLOATS:
        v = float(t)
        add("float", "echo-arg", t, per.format(f"j.echoD({t})"), ("bits", v))
        add("float", "kind-arg", t, per.format(f"j.kind({t})"), ("kind", "floating"))
        add("float", "compare", t, per.format(f"j.pt() > {t}"), ("value", 2.5 > v))
        add("float", "column", t, per.format(t), ("bits", v))
    # the same numbers as ONE constant node (a captured python variable): negative values are not a unary minus then
    for t in [repr(v) for v in INTS if abs(v) <= 2 ** 31] + ["-2.5", "-0.5", "0.5", "-1e-07", "-123456789.125", "-1e+22", "-0.0", "0.0"]:
        v = ast.literal_eval(t)
        kc = f"vm_const({t})"
        add("captured", "arith-right-minus", t, per.format(f"j.pt() - {kc}"), ("value", 2.5 - v))
        add("captured", "arith-right-plus", t, per.format(f"j.pt() + {kc}"), ("value", 2.5 + v))
        add("captured", "arith-left-minus", t, per.format(f"{kc} - j.pt()"), ("value", v - 2.5))
        add("captured", "arith-times", t, per.format(f"j.pt() * {kc}"), ("value", 2.5 * v))
        add("captured", "arith-chain", t, per.format(f"j.pt() - {kc} - {kc}"), ("value", 2.5 - v - v))
        add("captured", "literal-minus-literal", t, per.format(f"j.pt() * 0 + (2 - {kc})"), ("value", 2.5 * 0 + (2 - v)))
        add("captured", "unary-minus", t, per.format(f"j.pt() * 0 + (-{kc})"), ("value", 2.5 * 0 + (-v)))
        add("captured", "echo-arg", t, per.format(f"j.echoD({kc})"), ("bits", float(v)) if isinstance(v, float) else ("value", float(v)))
        if isinstance(v, float):
            add("captured", "column", t, per.format(kc), ("bits", v))
            add("captured", "times-one", t, per.format(f"j.echoD({kc} * 1)"), ("bits", v * 1))
        add("captured", "compare", t, per.format(f"j.pt() > {kc}"), ("value", 2.5 > v))
    for t in ("True", "False"):
        v = t == "True"
        add("bool", "echo-arg", t, per.format(f"j.echoB({t})"), ("value", v))
        add("bool", "kind-arg", t, per.format(f"j.kind({t})"), ("kind", "bool"))
        add("bool", "column", t, per.format(t), ("boolvalue", v))
        add("bool", "compare", t, per.format(f"j.isGood() == {t}"), ("value", v))
    # two constants of different kinds that compare equal in Python (1 == 1.0 == True, 0 == 0.0 == -0.0 == False) in ONE query,
    # in both orders: each keeps its own kind and value
    KCLS = {"1": "integral", "1.0": "floating", "True": "bool", "0": "integral", "0.0": "floating", "-0.0": "floating", "False": "bool"}
    for group in (("1", "1.0", "True"), ("0", "0.0", "-0.0", "False")):
        for x, y in itertools.permutations(group, 2):
            add("pair", "kind-args", f"{x},{y}", per.format(f"(j.kind({x}), j.kind({y}))"), ("kinds2", (KCLS[x], KCLS[y])))
            if KCLS[x] == "floating" and KCLS[y] == "floating":
                add("pair", "echo-args", f"{x},{y}", per.format(f"(j.echoD({x}), j.echoD({y}))"), ("bits2", (float(x), float(y))))
            add("pair", "filter-then-kind", f"{x},{y}", f"ds.SelectMany(lambda e: e.{coll}('A')).Where(lambda j: j.pt() > {x}).Select(lambda j: j.kind({y}))", ("kind", KCLS[y]))
    for s in strings(2 if tier == "quick" else 3):
        r = repr(s)
        add("str", "echo-arg", r, per.format(f"j.echoS({r})"), ("echo", s))
        add("str", "bank", r, f"ds.Select(lambda e: e.{coll}({r}).Count())", ("bank", s))
        if len(s) <= 1:
            # the same collection read twice with two different bank names: each name reaches its own retrieval
            add("str", "bank-second-use", r, f"ds.Select(lambda e: (e.{coll}('A').Count(), e.{coll}({r}).Count()))", ("banks2", ("A", s)))
            add("str", "bank-first-use", r, f"ds.Select(lambda e: (e.{coll}({r}).Count(), e.{coll}('B').Count()))", ("banks2", (s, "B")))
        if backend == "atlas":
            add("str", "attribute", r, per.format(f"j.getAttributeFloat({r})"), ("attr", s))
        if s != "":
            add("str", "tree-name", r, f"ResultTTree(ds.Select(lambda e: e.{coll}('A').Count()), ['n'], {r}, 'file.root')", ("tree", s))
            add("str", "column-name", r, f"ResultTTree(ds.Select(lambda e: e.{coll}('A').Count()), [{r}], 'tree', 'file.root')", ("column", s))
            add("str", "dict-key", r, f"ds.Select(lambda e: {{{r}: e.{coll}('A').Count()}})", ("column", s))
    return cases, tuple(qgen.method_metadata(a)) + tuple(echo_metadata(cls))


def judge(c, o, evs):
    """Returns None (ok / raised) or a problem record."""
    info = c.info
    exp = info["expect"]
    base = {"lit_kind": info["lit_kind"], "position": info["position"], "literal": info["literal"], "query": c.text, "backend": c.backend}
    if o.status == "refused":
        return "refused", None
    if o.status == "compile_fail":
        return "bad", dict(base, symptom="compile-fail", error="; ".join(o.errors[:2])[:250])
    job = o.jobs[0] if o.jobs else None
    if job is None or job.init != "ok":
        return "bad", dict(base, symptom="init-failure", what=job.init if job else "no job")
    er = job.events[0] if job.events else None
    kind = exp[0]
    try:
        if kind in ("tree", "column"):
            sch = job.schema[0]
            got = sch[0] if kind == "tree" else sch[1][0][0]
            if got != exp[1]:
                return "bad", dict(base, symptom="name-mismatch", observed=got.encode("utf-8", "surrogateescape").hex(), expected=exp[1].encode().hex())
            if kind == "tree" and er is not None and er.rows and er.rows[0][0] != exp[1]:
                return "bad", dict(base, symptom="fill-tree-mismatch", observed=er.rows[0][0])
            return "ok", None
        if er is None:
            return "bad", dict(base, symptom="no-event")
        if kind == "bank":
            banks = [b for (_t, b) in er.reqs]
            if banks != [exp[1]]:
                return "bad", dict(base, symptom="bank-mismatch", observed=[b.encode("utf-8", "surrogateescape").hex() for b in banks], expected=exp[1].encode().hex())
            return "ok", None
        if kind == "banks2":
            banks = [b for (_t, b) in er.reqs]
            # a missing bank ends the event at the first failed retrieval: what was requested must be a prefix of the two names
            want = list(exp[1])
            if not banks or banks != want[:len(banks)] or (len(banks) < 2 and er.end == "ok"):
                return "bad", dict(base, symptom="bank-mismatch", observed=[b.encode("utf-8", "surrogateescape").hex() for b in banks], expected=[w.encode().hex() for w in want])
            return "ok", None
        if kind == "attr":
            if er.attrs != [exp[1]]:
                return "bad", dict(base, symptom="attr-mismatch", observed=[b.encode("utf-8", "surrogateescape").hex() for b in er.attrs], expected=exp[1].encode().hex())
            return "ok", None
        if kind == "echo":
            if er.echos != [exp[1].encode("utf-8")]:
                return "bad", dict(base, symptom="string-mismatch", observed=[b.hex() for b in er.echos], expected=exp[1].encode().hex())
            return "ok", None
        if er.end != "ok" or not er.rows:
            return "bad", dict(base, symptom="no-row", end=er.end, what=er.what[:100])
        if kind in ("kinds2", "bits2"):
            cells = er.rows[0][1][:2]
            if kind == "kinds2":
                names = {1: "bool", 2: "integral", 3: "integral", 4: "integral", 5: "floating", 6: "floating", 7: "floating", 8: "string"}
                got = tuple(names.get(int(parse_value(c_)), "?") for c_ in cells)
                if got != tuple(exp[1]):
                    return "bad", dict(base, symptom="kind-mismatch", observed=str(got), expected=str(tuple(exp[1])))
            else:
                got = tuple(struct.pack(">d", float(parse_value(c_))) for c_ in cells)
                if got != tuple(struct.pack(">d", v) for v in exp[1]):
                    return "bad", dict(base, symptom="value-mismatch", observed=str(cells), expected=str(exp[1]))
            return "ok", None
        cell = er.rows[0][1][0]
        val = parse_value(cell)
        typ = job.schema[0][1][0][1] if job.schema and job.schema[0][1] else ""
        if kind == "value":
            if float(val) != float(exp[1]):
                return "bad", dict(base, symptom="value-mismatch", observed=cell, expected=repr(exp[1]))
        elif kind == "bits":
            if struct.pack(">d", float(val)) != struct.pack(">d", exp[1]):
                return "bad", dict(base, symptom="value-mismatch", observed=cell, expected=repr(exp[1]))
            if typ not in ("double", "float"):
                return "bad", dict(base, symptom="kind-mismatch", observed_type=typ)
        elif kind == "intvalue":
            if isinstance(val, bool) or float(val) != float(exp[1]) or (isinstance(val, int) and val != exp[1]):
                return "bad", dict(base, symptom="value-mismatch", observed=cell, expected=repr(exp[1]), observed_type=typ)
            if typ in ("double", "float", "bool"):
                return "bad", dict(base, symptom="kind-mismatch", observed_type=typ)
        elif kind == "boolvalue":
            if val is not exp[1] or typ != "bool":
                return "bad", dict(base, symptom="value-mismatch", observed=cell, expected=repr(exp[1]), observed_type=typ)
        elif kind == "kind":
            code = int(val)
            cls = {1: "bool", 2: "integral", 3: "integral", 4: "integral", 5: "floating", 6: "floating", 7: "floating", 8: "string"}.get(code, "?")
            if cls != exp[1]:
                return "bad", dict(base, symptom="kind-mismatch", observed=f"overload {code} ({cls})", expected=exp[1])
        return "ok", None
    except (IndexError, ValueError) as e:
        return "bad", dict(base, symptom="unreadable-output", what=str(e)[:100])


def post(outs, evs):
    stats = Counter()
    recs = []
    for o in outs:
        st, rec = judge(o.case, o, evs)
        stats[st] += 1
        stats[f"{o.case.info['lit_kind']}:{st}"] += 1
        if rec is not None:
            recs.append(rec)
    return stats, recs, 0


def main(tier="quick"):
    rep = Report(PROP, tier)
    known = F.load(PROP)
    evs = events()
    cases = []
    pid = 0
    for backend in ("atlas", "cms_aod", "cms_miniaod"):
        cs, md = build_cases(tier if backend == "atlas" else "quick", backend)
        if tier == "quick" and backend != "atlas":
            # the CMS backends have their own ways of carrying a bank name (getByLabel, consumes<>(InputTag)): the string positions
            # with strings of length <= 1, and the captured-constant nodes, on every backend in the quick tier as well
            cs = [c for c in cs if (c["lit_kind"] == "str" and len(ast.literal_eval(c["literal"])) <= 1) or (c["lit_kind"] == "captured" and c["position"] in ("arith-right-minus", "echo-arg"))]
        for c in cs:
            cases.append(Case(pid, backend, c["query"], md, c))
            pid += 1
    res = execute(cases, evs, chunk_size=60, post=post)
    stats = Counter()
    recs = []
    for s, r, _ in res:
        stats.update(s)
        recs += r
    groups = Counter()
    for i, r in enumerate(sorted(recs, key=lambda r: (r["lit_kind"], r["position"], len(r["literal"]), r["literal"], r["backend"]))):
        f = F.match(known, r)
        if f is not None:
            rep.known_finding(f["id"], f["what"], f"{r['position']} {r['literal']}")
            continue
        key = (r["lit_kind"], r["position"], r["symptom"])
        groups[key] += 1
        if groups[key] <= 4:
            rep.violation(f"{r['backend']}-{r['position']}-{i}", f"{r['symptom']} for {r['lit_kind']} literal {r['literal']} at {r['position']} [{r['backend']}]: {r['query'][:200]} :: " +
                          str({k: r[k] for k in ("error", "observed", "expected", "observed_type", "what", "end") if k in r})[:300], r)
        else:
            rep.violations.append((f"{r['backend']}-{r['position']}-{i}", "(grouped)", r))
    rep.set("states", len(cases))
    rep.set("transitions", len(cases))
    rep.set("traces_validated_against_impl", stats["ok"] + stats["bad"] + stats["refused"])
    rep.set("counters", dict(stats))
    rep.set("alphabet", {"ints": [str(i) for i in INTS], "floats": FLOATS, "string_alphabet": SIGMA, "max_string_length": 2 if tier == "quick" else 3})
    rep.sample({"position": cases[0].info["position"], "literal": cases[0].info["literal"], "query": cases[0].text})
    rep.sample({"position": cases[-1].info["position"], "literal": cases[-1].info["literal"], "query": cases[-1].text})
    rep.assumptions += ["a translation that raises is accepted (the literal is rejected rather than mis-rendered)",
                        "nan cannot be written as a Python literal and is not generated; inf is written 1e999"]
    return rep.finish(require={"traces_validated_against_impl": 500})


if __name__ == "__main__":
    sys.exit(main(sys.argv[1] if len(sys.argv) > 1 else "quick"))
