"""M7: hermetic sandbox for running the rendered runner.sh scripts unmodified.

Each sandbox is a scratch root with its own /scripts /results /data /work /home/atlas /opt/cms /xaod_calibration_cache
/ctl and a stub tool directory that is the only PATH entry.  An invocation runs inside a private mount namespace
(unshare -m) with /usr bound read-only and chroot()ed to the scratch root, so the script runs byte-for-byte as rendered
(absolute paths, shebang and all).  If mount namespaces are unavailable the fallback rewrites the absolute prefixes in a
copy of the script (weaker binding, same exploration) and says so.
"""
import os
import shutil
import subprocess
import tempfile
from pathlib import Path
from typing import Dict, List, Optional, Tuple

STUB = r'''#!/usr/bin/bash
# stand-in for every external tool the runner scripts invoke: logs, consults the fault plan, minimal faithful effect
name="${0##*/}"
CTL="__CTL__"
# per-tool occurrence counters under a lock: commands of a pipeline run concurrently, so a global index would be racy
exec 9>"$CTL/lock"
/usr/bin/flock 9
n=0; [ -f "$CTL/count" ] && n=$(<"$CTL/count"); n=$((n + 1)); echo $n > "$CTL/count"
k=0; [ -f "$CTL/count.$name" ] && k=$(<"$CTL/count.$name"); k=$((k + 1)); echo $k > "$CTL/count.$name"
printf '%s\t%s\t%s\t%s\t%s\n' "$n" "$name" "$PWD" "$k" "$*" >> "$CTL/log"
hit=0
plan=""; [ -f "$CTL/fault" ] && plan=$(<"$CTL/fault")
if [ "$name:$k" = "$plan" ]; then
  printf 'FAULT\t%s\t%s\n' "$n" "$name:$k" >> "$CTL/log"
  hit=1
fi
if [ "$name:$k:late" = "$plan" ]; then      # the tool does its work (writes its output) and THEN reports failure
  printf 'FAULT\t%s\t%s\n' "$n" "$name:$k:late" >> "$CTL/log"
  hit=2
fi
case "$plan" in
  "$name:"*":stuck")                        # the tool fails at its k-th use and at every later one (a mount that stays down)
    kk="${plan#$name:}"; kk="${kk%:stuck}"
    if [ "$k" -ge "$kk" ]; then
      printf 'FAULT\t%s\t%s\n' "$n" "$plan" >> "$CTL/log"
      hit=1
    fi ;;
esac
exec 9>&-
if [ $hit = 1 ]; then exit 97; fi
nonce=""; [ -f "$CTL/nonce" ] && nonce=$(<"$CTL/nonce")
case "$name" in
  mkdir|cp|cat|chmod|rm|dirname|xrdcp|tee|mv|ls|touch|ln|head|tail|sed|grep|date|sleep|basename|true|false|test|env|tr|cut|sort|wc)
    if [ "$name" = xrdcp ]; then exec /usr/bin/cp "$@"; fi
    if [ "$name" = sleep ]; then exit 0; fi       # time is not modelled
    exec /usr/bin/$name "$@" ;;
  cmake)
    [ -d "$1" ] || exit 3
    echo cmake > Makefile ;;
  make)
    [ -f Makefile ] || exit 3
    echo built > built.marker ;;
  sudo) exit 0 ;;
  python)
    # the rendered job options are EXECUTED (unmodified) against the stand-in EventLoop / SampleHandler in /jobfw
    [ -f "$1" ] || exit 4
    [ -f built.marker ] || exit 5
    VM_NONCE="$nonce" VM_ROOT="__ROOT__" PYTHONDONTWRITEBYTECODE=1 /usr/bin/python3 "__JOBFW__/jobrun.py" atlas "$@"; rc=$?
    if [ $hit = 2 ]; then exit 97; fi
    exit $rc ;;
  mkedanlzr)
    /usr/bin/mkdir "$1" || exit 3
    /usr/bin/mkdir "$1/src" "$1/plugins" "$1/python" ;;
  scram)
    [ "$1" = b ] || exit 3
    { [ -f src/Analyzer.cc ] || [ -f plugins/Analyzer.cc ]; } || exit 4
    echo built > built.marker ;;
  cmsRun)
    # the rendered configuration is EXECUTED (unmodified) and the process it defines is run by the stand-in in /jobfw
    [ -f "$1" ] || exit 4
    [ -f built.marker ] || exit 5
    VM_NONCE="$nonce" VM_ROOT="__ROOT__" PYTHONDONTWRITEBYTECODE=1 /usr/bin/python3 "__JOBFW__/jobrun.py" cms "$1"; rc=$?
    if [ $hit = 2 ]; then exit 97; fi
    exit $rc ;;
  root)
    last="${@: -1}"
    in=$(echo "$last" | /usr/bin/sed -n 's/.*copy_root_tree\.C("\([^"]*\)","\([^"]*\)").*/\1/p')
    out=$(echo "$last" | /usr/bin/sed -n 's/.*copy_root_tree\.C("\([^"]*\)","\([^"]*\)").*/\2/p')
    script=$(echo "$last" | /usr/bin/sed -n 's/\(.*copy_root_tree\.C\)(.*/\1/p')
    [ -f "$script" ] || exit 4
    [ -n "$in" ] && [ -n "$out" ] || exit 9
    # the rendered macro, compiled against the stand-in ROOT classes (mc/standin/jobfw/vm_root_macro.h), is what runs
    [ -x "__JOBFW__/macro_bin" ] || exit 12
    /usr/bin/cmp -s "$script" "__JOBFW__/macro.src" || exit 11
    "__JOBFW__/macro_bin" "$in" "$out"; rc=$?
    if [ $hit = 2 ]; then exit 97; fi
    exit $rc ;;
  *) exit 127 ;;
esac
if [ $hit = 2 ]; then exit 97; fi
'''

TOOLS = ["mkdir", "cp", "cat", "chmod", "rm", "dirname", "cmake", "make", "python", "sudo", "mkedanlzr", "scram", "cmsRun", "root", "xrdcp",
         "tee", "mv", "ls", "touch", "ln", "head", "tail", "sed", "grep", "date", "sleep", "basename", "true", "false", "test", "env", "tr", "cut", "sort", "wc"]

# input "ROOT files" present under /data in every sandbox: name -> number of events
DATA_FILES = {"f0.root": 3, "f1.root": 12, "one.root": 11, "two.root": 0, "run 2012B/part one.root": 5}

_NS_OK = None


def namespaces_available() -> bool:
    global _NS_OK
    if _NS_OK is None:
        try:
            r = subprocess.run(["unshare", "-m", "true"], capture_output=True, timeout=20)
            _NS_OK = r.returncode == 0 and os.geteuid() == 0 and shutil.which("chroot") is not None
        except Exception:
            _NS_OK = False
        if os.environ.get("VERIF_NO_NAMESPACE"):
            _NS_OK = False
    return _NS_OK


def build_macro(files: Dict[str, str]) -> Optional[Path]:
    """Compile the package's copy_root_tree.C (CMS) against the stand-in ROOT classes, once; returns a scratch directory
    holding macro_bin + macro.src (the caller removes it) or None if the package has no macro.  A macro that does not
    compile yields a directory without macro_bin: the stand-in `root` then fails, as ROOT would."""
    if "copy_root_tree.C" not in files:
        return None
    base = os.environ.get("VERIF_TMP") or tempfile.gettempdir()
    d = Path(tempfile.mkdtemp(prefix="vmacro_", dir=base))
    (d / "macro.src").write_text(files["copy_root_tree.C"])
    (d / "copy_root_tree.C").write_text(files["copy_root_tree.C"])
    (d / "main.cpp").write_text('#include "vm_root_macro.h"\n#include "copy_root_tree.C"\n'
                                'int main(int argc, char **argv) { if (argc != 3) return 64; copy_root_tree(argv[1], argv[2]); return 0; }\n')
    jobfw = Path(__file__).resolve().parents[1] / "standin" / "jobfw"
    r = subprocess.run(["g++", "-std=c++17", "-O0", "-w", f"-I{jobfw}", f"-I{d}", "-o", str(d / "macro_bin"), str(d / "main.cpp")], capture_output=True, text=True)
    (d / "compile.log").write_text(r.stdout + r.stderr)
    return d


class Sandbox:
    def __init__(self, files: Dict[str, str], backend: str, filelist: Optional[List[str]] = ("/data/f0.root",), setup_ok=True, macro_dir: Optional[Path] = None):
        base = os.environ.get("VERIF_TMP") or tempfile.gettempdir()
        self.root = Path(tempfile.mkdtemp(prefix="vsb_", dir=base))
        self.backend = backend
        self.ns = namespaces_available()
        r = self.root
        for d in ("scripts", "results", "data", "work", "home/atlas", "opt/cms", "opt/abe", "xaod_calibration_cache", "ctl", "stubbin", "tmp", "out1", "out2"):
            (r / d).mkdir(parents=True, exist_ok=True)
        for n, t in files.items():
            p = r / "scripts" / n
            p.write_text(t)
        (r / "scripts" / "runner.sh").chmod(0o755)
        if filelist is not None:
            (r / "scripts" / "filelist.txt").write_text("".join(f"{x}\n" for x in filelist))
        ctl = "/ctl" if self.ns else str(r / "ctl")
        stub = STUB.replace("__CTL__", ctl).replace("__JOBFW__", "/jobfw" if self.ns else str(r / "jobfw")).replace("__ROOT__", "" if self.ns else str(r))
        shutil.copytree(Path(__file__).resolve().parents[1] / "standin" / "jobfw", r / "jobfw", ignore=shutil.ignore_patterns("__pycache__"))
        if macro_dir is not None:
            for n in ("macro_bin", "macro.src"):
                if (Path(macro_dir) / n).exists():
                    shutil.copy2(Path(macro_dir) / n, r / "jobfw" / n)
        for name, nev in DATA_FILES.items():
            (r / "data" / name).parent.mkdir(parents=True, exist_ok=True)
            (r / "data" / name).write_text(f"EVENTS {nev}\n")
        (r / "stubbin" / "_stub").write_text(stub)
        (r / "stubbin" / "_stub").chmod(0o755)
        for t in TOOLS:
            os.symlink("_stub", r / "stubbin" / t)
        os.symlink("/usr/bin/bash", r / "stubbin" / "bash")
        # environment setup files the scripts source
        px = "" if self.ns else str(r)
        (r / "home/atlas/release_setup.sh").write_text(
            f'echo "SRC release_setup" >> {ctl}/log\nif [ "$(/usr/bin/cat {ctl}/srcfault 2>/dev/null)" = release_setup ]; then return 1; fi\n'
            f'export AnalysisBaseExternals_PLATFORM={px}/opt/abe\n')
        (r / "opt/abe/setup.sh").write_text(
            f'echo "SRC platform_setup" >> {ctl}/log\nif [ "$(/usr/bin/cat {ctl}/srcfault 2>/dev/null)" = platform_setup ]; then return 1; fi\n')
        (r / "opt/cms/entrypoint.sh").write_text(
            f'echo "SRC entrypoint" >> {ctl}/log\nif [ "$(/usr/bin/cat {ctl}/srcfault 2>/dev/null)" = entrypoint ]; then return 1; fi\n')
        if self.ns:
            for l, t in (("bin", "usr/bin"), ("lib", "usr/lib"), ("lib64", "usr/lib64"), ("sbin", "usr/sbin")):
                os.symlink(t, r / l)
            (r / "usr").mkdir()
            (r / "dev").mkdir()
        else:
            # fallback: rewrite the absolute prefixes in a copy of the script
            s = (r / "scripts" / "runner.sh").read_text()
            for pfx in ("/results", "/home/atlas", "/xaod_calibration_cache", "/opt/cms"):
                s = s.replace(pfx, str(r) + pfx)
            s = s.replace("#!/bin/env bash", "#!/usr/bin/env bash")
            (r / "scripts" / "runner.sh").write_text(s)
        self.ninv = 0

    def path(self, inner: str) -> Path:
        return self.root / inner.lstrip("/")

    def inner(self, p: str) -> str:
        "Path as the script must be given it."
        return p if self.ns else str(self.root) + p

    def invoke(self, args: List[str], fault: Optional[int] = None, srcfault: Optional[str] = None, timeout=60, how: str = "abs") -> Tuple[int, List[List[str]], str]:
        """Run /scripts/runner.sh with args.  Returns (exit status, command log of this invocation, nonce)."""
        self.ninv += 1
        nonce = f"N{self.ninv}-{os.getpid()}-{id(self) % 100000}"
        ctl = self.root / "ctl"
        (ctl / "count").write_text("0\n")
        for f in ctl.glob("count.*"):
            f.unlink()
        (ctl / "nonce").write_text(nonce + "\n")
        for f in ("fault", "srcfault", "log"):
            if (ctl / f).exists():
                (ctl / f).unlink()
        if fault is not None:
            (ctl / "fault").write_text(f"{fault}\n")
        if srcfault is not None:
            (ctl / "srcfault").write_text(f"{srcfault}\n")
        (ctl / "log").write_text("")
        env = {"PATH": "/stubbin" if self.ns else str(self.root / "stubbin"), "HOME": "/tmp", "LANG": "C"}
        quoted = " ".join("'" + a.replace("'", "'\\''") + "'" for a in args)
        # how the script is started: by its absolute path (what docker does), through a relative path, or as an argument of bash
        script = {"abs": "/scripts/runner.sh", "rel": "../scripts/runner.sh", "bash": "bash ../scripts/runner.sh"}[how]
        if self.ns:
            r = self.root
            inner = (f"mount --make-rprivate / && mount --bind /usr {r}/usr && mount -o remount,ro,bind {r}/usr && mount --bind /dev {r}/dev && "
                     f"exec chroot {r} /usr/bin/env -i PATH=/stubbin HOME=/tmp LANG=C /usr/bin/bash -c \"cd /work && exec {script} {quoted}\"")
            cmd = ["unshare", "-m", "bash", "-c", inner]
            p = subprocess.run(cmd, capture_output=True, text=True, timeout=timeout, errors="replace")
        else:
            p = subprocess.run(["/usr/bin/bash", "-c", f"cd {self.root}/work && exec " + (f"{self.root}/scripts/runner.sh" if how == "abs" else script) + f" {quoted}"], env=env,
                               capture_output=True, text=True, timeout=timeout, errors="replace")
        log = [l.split("\t") for l in (ctl / "log").read_text().split("\n") if l]
        return p.returncode, log, nonce, (p.stdout[-2000:] + p.stderr[-2000:])

    def read(self, inner: str) -> Optional[str]:
        p = self.path(inner)
        try:
            if p.is_file():
                return p.read_text()
        except OSError:
            pass
        return None

    def cleanup(self):
        # the mount namespace died with each invocation; nothing is bound any more.  Belt and braces: the bind targets
        # must be empty plain directories here - rmdir them first and refuse to go on otherwise.
        if self.ns:
            for d in ("usr", "dev"):
                p = self.root / d
                if p.exists():
                    if os.path.ismount(p):
                        raise RuntimeError(f"harness: {p} is still a mount point - refusing to clean up")
                    os.rmdir(p)      # raises if not empty
        shutil.rmtree(self.root, ignore_errors=True)
