"""M4: splice rendered packages into one translation unit per batch, compile against the model EDM, run, parse.

Programs whose C++ does not compile are attributed through #line directives, recorded and removed; the batch is rebuilt.
"""
import os
import re
import shutil
import subprocess
import tempfile
from dataclasses import dataclass, field
from pathlib import Path
from typing import Dict, List, Optional, Tuple

from mc.edm.events import unhx

INCLUDE_DIR = Path(__file__).parent / "include"

STD_HEADERS = {
    "algorithm", "array", "cassert", "cctype", "cmath", "complex", "cstdio", "cstdlib", "cstring", "deque", "functional", "iostream", "iterator",
    "limits", "list", "map", "memory", "numeric", "set", "sstream", "stdexcept", "string", "tuple", "type_traits", "utility",
    "vector", "math.h", "stdio.h", "stdlib.h", "string.h", "cstdint", "unordered_map", "unordered_set", "iomanip", "fstream",
}

PRELUDE_STD = ["algorithm", "array", "cmath", "complex", "cstdint", "cstdio", "cstdlib", "cstring", "deque", "functional", "iostream", "iterator",
               "limits", "list", "map", "memory", "numeric", "set", "sstream", "stdexcept", "string", "tuple", "utility", "vector", "math.h"]

# every header of the C and C++ standard libraries: when a rendered file includes one of them, the batch translation unit includes
# it BEFORE the first namespace, so that the #include line inside the spliced text is a no-op under its guard
ALL_STD = set("""algorithm any array atomic bitset cassert ccomplex cctype cerrno cfenv cfloat charconv chrono cinttypes ciso646 climits clocale cmath codecvt complex
condition_variable csetjmp csignal cstdarg cstddef cstdint cstdio cstdlib cstring ctgmath ctime cuchar cwchar cwctype deque exception execution filesystem forward_list fstream
functional future initializer_list iomanip ios iosfwd iostream istream iterator limits list locale map memory memory_resource mutex new numeric optional ostream queue random ratio
regex scoped_allocator set shared_mutex sstream stack stdexcept streambuf string string_view system_error thread tuple type_traits typeindex typeinfo unordered_map unordered_set
utility valarray variant vector assert.h complex.h ctype.h errno.h fenv.h float.h inttypes.h limits.h locale.h math.h setjmp.h signal.h stdarg.h stddef.h stdint.h stdio.h
stdlib.h string.h time.h wchar.h wctype.h unistd.h""".split())

CXX = os.environ.get("VERIF_CXX", "g++")
BASE_FLAGS = ["-std=c++17", "-O0", "-w", "-ftrivial-auto-var-init=pattern", "-fmax-errors=0"]

_inc_re = re.compile(r'^\s*#\s*include\s*([<"])([^>"]+)[>"]', re.M)


def model_header(backend: str) -> str:
    return "model_atlas.h" if backend == "atlas" else "model_cms.h"


def class_name(backend: str) -> str:
    return "query" if backend == "atlas" else "Analyzer"


def _ensure_stubs(stub_dir: Path, text: str, backend: str):
    for m in _inc_re.finditer(text):
        h = m.group(2).strip()
        if h in STD_HEADERS or h in ALL_STD or h.startswith("q") and h.endswith("_query.h"):
            continue
        if h == "analysis/query.h":
            continue
        p = stub_dir / h
        try:
            p.resolve().relative_to(stub_dir.resolve())
        except ValueError:
            continue
        if not p.exists():
            p.parent.mkdir(parents=True, exist_ok=True)
            p.write_text(f'#include "{model_header(backend)}"\n')


def lex_check(text: str) -> Optional[str]:
    """Cheap lexical sanity check of a rendered C++ file: literals terminated on their line, comments closed, brackets
    balanced.  A file failing this cannot be spliced next to other programs (its errors would be attributed to them)."""
    i, n = 0, len(text)
    stack = []
    line = 1
    pairs = {")": "(", "]": "[", "}": "{"}
    while i < n:
        c = text[i]
        if c == "\n":
            line += 1
            i += 1
        elif c == "/" and i + 1 < n and text[i + 1] == "/":
            j = text.find("\n", i)
            i = n if j < 0 else j
        elif c == "/" and i + 1 < n and text[i + 1] == "*":
            j = text.find("*/", i + 2)
            if j < 0:
                return f"line {line}: unterminated comment"
            line += text.count("\n", i, j)
            i = j + 2
        elif c in "\"'":
            q = c
            j = i + 1
            while True:
                if j >= n or text[j] == "\n":
                    return f"line {line}: unterminated {'string' if q == chr(34) else 'character'} literal"
                if text[j] == "\\":
                    if j + 1 < n and text[j + 1] == "\n":
                        return f"line {line}: backslash-newline inside a literal"
                    j += 2
                    continue
                if text[j] == q:
                    break
                j += 1
            i = j + 1
        elif c in "([{":
            stack.append((c, line))
            i += 1
        elif c in ")]}":
            if not stack or stack[-1][0] != pairs[c]:
                return f"line {line}: unbalanced '{c}'"
            stack.pop()
            i += 1
        elif c == "\\" and i + 1 < n and text[i + 1] == "\n":
            return f"line {line}: stray backslash-newline"
        else:
            i += 1
    if stack:
        return f"line {stack[-1][1]}: unclosed '{stack[-1][0]}'"
    return None


@dataclass
class Program:
    idx: int
    backend: str
    files: Dict[str, str]
    prelude: str = ""        # model C++ placed inside the program's namespace before the rendered code (C10)


def write_batch(workdir: Path, programs: List[Program], backend: str) -> Path:
    stub = workdir / "stubs"
    stub.mkdir(parents=True, exist_ok=True)
    parts = [f'#include "{model_header(backend)}"']
    parts += [f"#include <{h}>" for h in PRELUDE_STD]
    used_std = set()
    for pr in programs:
        for t in pr.files.values():
            used_std |= {m.group(2).strip() for m in _inc_re.finditer(t)} & ALL_STD
    parts += [f"#include <{h}>" for h in sorted(used_std - set(PRELUDE_STD))]
    for pr in programs:
        n = pr.idx
        if backend == "atlas":
            hdr = pr.files["query.h"]
            src = pr.files["query.cxx"]
            _ensure_stubs(stub, hdr, backend)
            _ensure_stubs(stub, src, backend)
            (workdir / f"q{n}_query.h").write_text(f'#line 1 "q{n}/query.h"\n' + hdr + "\n")
            src = src.replace("#include <analysis/query.h>", f'#include "q{n}_query.h"', 1)
            parts.append("#undef analysis_query_H")
            parts.append(f"namespace q{n} {{\n#line 1 \"q{n}/prelude\"\n{pr.prelude}\n#line 1 \"q{n}/query.cxx\"\n{src}\n}}")
        else:
            src = pr.files["Analyzer.cc"]
            _ensure_stubs(stub, src, backend)
            parts.append(f"namespace q{n} {{\n#line 1 \"q{n}/prelude\"\n{pr.prelude}\n#line 1 \"q{n}/Analyzer.cc\"\n{src}\n}}")
    cls = class_name(backend)
    main = ["#line 1 \"driver_main\"", "int main() {", "  std::ios::sync_with_stdio(false);",
            "  auto evs = vm::parse_events(std::cin);", "  auto plans = vm::parse_plan(std::cin);",
            "  for (auto &p : plans) {", "    switch (p.job) {"]
    for pr in programs:
        main.append(f"      case {pr.idx}: vm::run_job<q{pr.idx}::{cls}>(p, evs); break;")
    main += ["      default: std::cout << \"BADJOB\\n\";", "    }", "    std::cout.flush();", "  }", "  return 0;", "}"]
    tu = workdir / "batch.cpp"
    tu.write_text("\n".join(parts + main) + "\n", encoding="utf-8", errors="surrogateescape")
    return tu


_diag_re = re.compile(r'^(?:In file included from )?q(\d+)/[^:]+:\d+', re.M)
_diag_err_re = re.compile(r'^q(\d+)/([^:]+):(\d+):(?:\d+:)? (?:fatal )?error: (.*)$', re.M)


def compile_batch(workdir: Path, programs: List[Program], backend: str, extra_flags=(), syntax_only=False,
                  timeout=600) -> Tuple[Optional[Path], Dict[int, List[str]]]:
    """Returns (binary or None, {program idx: [error lines]}).  Programs with errors are dropped and the batch rebuilt."""
    failed: Dict[int, List[str]] = {}
    progs = []
    for p in programs:
        bad = None
        for fn in (("query.h", "query.cxx") if backend == "atlas" else ("Analyzer.cc",)):
            bad = bad or lex_check(p.files[fn])
            if bad:
                failed[p.idx] = [f"{fn}: lexically malformed C++: {bad}"]
                break
        if not bad:
            progs.append(p)
    for _round in range(4):
        if not progs:
            return None, failed
        tu = write_batch(workdir, progs, backend)
        exe = workdir / "batch.bin"
        cmd = [CXX] + BASE_FLAGS + list(extra_flags) + ["-I", str(INCLUDE_DIR), "-I", str(workdir / "stubs"), "-I", str(workdir)]
        cmd += ["-fsyntax-only", str(tu)] if syntax_only else [str(tu), "-o", str(exe)]
        r = subprocess.run(cmd, capture_output=True, text=True, timeout=timeout, errors="replace")
        if r.returncode == 0:
            return (tu if syntax_only else exe), failed
        errs = {}
        for m in _diag_err_re.finditer(r.stderr):
            errs.setdefault(int(m.group(1)), []).append(f"{m.group(2)}:{m.group(3)}: {m.group(4)}")
        if not errs or _round == 3:
            # cannot attribute: bisect (a program can derail the diagnostics of its neighbours)
            if len(progs) == 1:
                failed[progs[0].idx] = [ln for ln in r.stderr.split("\n") if "error" in ln][:5] or ["compile failed"]
                return None, failed
            return _bisect(workdir, progs, backend, extra_flags, failed, timeout)
        for k, v in errs.items():
            failed[k] = v
        progs = [p for p in progs if p.idx not in failed]
    raise RuntimeError("harness: unreachable")


def _bisect(workdir, progs, backend, extra_flags, failed, timeout):
    """Find the programs that do not compile by halving; returns the binary of all good programs together."""
    good = []

    def rec(ps):
        if not ps:
            return
        sub = workdir / f"b{len(list(workdir.iterdir()))}"
        sub.mkdir()
        tu = write_batch(sub, ps, backend)
        cmd = [CXX] + BASE_FLAGS + list(extra_flags) + ["-I", str(INCLUDE_DIR), "-I", str(sub / "stubs"), "-I", str(sub), "-fsyntax-only", str(tu)]
        r = subprocess.run(cmd, capture_output=True, text=True, timeout=timeout, errors="replace")
        if r.returncode == 0:
            good.extend(ps)
            return
        if len(ps) == 1:
            failed[ps[0].idx] = [m.group(0)[:200] for m in _diag_err_re.finditer(r.stderr)][:5] or [ln for ln in r.stderr.split("\n") if "error" in ln][:5]
            return
        h = len(ps) // 2
        rec(ps[:h])
        rec(ps[h:])
    rec(progs)
    if not good:
        return None, failed
    final = workdir / "final"
    final.mkdir()
    tu = write_batch(final, good, backend)
    exe = final / "batch.bin"
    cmd = [CXX] + BASE_FLAGS + list(extra_flags) + ["-I", str(INCLUDE_DIR), "-I", str(final / "stubs"), "-I", str(final), str(tu), "-o", str(exe)]
    r = subprocess.run(cmd, capture_output=True, text=True, timeout=timeout, errors="replace")
    if r.returncode != 0:
        raise RuntimeError("harness: programs that compile separately fail together:\n" + r.stderr[:3000])
    return exe, failed


@dataclass
class EvtResult:
    event: int
    reqs: List[Tuple[str, str]] = field(default_factory=list)
    rows: List[Tuple[str, List[str]]] = field(default_factory=list)
    attrs: List[str] = field(default_factory=list)
    echos: List[bytes] = field(default_factory=list)
    end: str = "MISSING"
    what: str = ""


@dataclass
class JobResult:
    job: int
    tag: str
    init: str = "ok"
    schema: List[Tuple[str, List[Tuple[str, str]], List[str]]] = field(default_factory=list)
    consumes: List[Tuple[str, str]] = field(default_factory=list)
    events: List[EvtResult] = field(default_factory=list)
    complete: bool = False


def _uh(h):
    return unhx(h).decode("utf-8", errors="surrogateescape")


def parse_output(text: str) -> List[JobResult]:
    jobs: List[JobResult] = []
    cur: Optional[JobResult] = None
    ev: Optional[EvtResult] = None
    for line in text.split("\n"):
        if not line:
            continue
        t = line.split(" ", 1)
        k = t[0]
        rest = t[1] if len(t) > 1 else ""
        if k == "JOB":
            a = rest.split(" ")
            cur = JobResult(int(a[0]), a[1])
            jobs.append(cur)
            ev = None
        elif cur is None:
            continue
        elif k == "INIT":
            cur.init = rest
        elif k == "CONSUMES":
            a = rest.split(" ")
            cur.consumes.append((_uh(a[0]), _uh(a[1])))
        elif k == "SCHEMA":
            a = rest.split(" ")
            cols, flags = [], []
            for c in a[1:]:
                if c.startswith("!"):
                    flags.append(c)
                else:
                    n, ty = c.split(":")
                    cols.append((_uh(n), _uh(ty)))
            cur.schema.append((_uh(a[0]), cols, flags))
        elif k == "BEGIN":
            ev = EvtResult(int(rest))
            cur.events.append(ev)
        elif k == "REQ" and ev is not None:
            a = rest.split(" ")
            ev.reqs.append((_uh(a[0]), _uh(a[1])))
        elif k == "ATTR" and ev is not None:
            ev.attrs.append(_uh(rest))
        elif k == "ECHO" and ev is not None:
            ev.echos.append(unhx(rest))
        elif k == "ROW" and ev is not None:
            a = rest.split("\t")
            ev.rows.append((_uh(a[0]), a[1:]))
        elif k == "END" and ev is not None:
            a = rest.split(" ", 1)
            ev.end = a[0]
            ev.what = _uh(a[1]) if len(a) > 1 else ""
        elif k == "ENDJOB":
            cur.complete = True
    return jobs


def run_binary(exe: Path, events_txt: str, plans: List[Tuple[int, str, List[int]]], timeout=600) -> List[JobResult]:
    """Run the job plans.  A job that crashes the process (signal) is recorded as CRASH and the remaining plans are
    run in a fresh process, so one crashing program cannot hide the others."""
    all_jobs: List[JobResult] = []
    remaining = list(plans)
    guard = 0
    while remaining:
        guard += 1
        if guard > len(plans) + 2:
            raise RuntimeError("harness: driver keeps crashing without progress")
        inp = events_txt + "".join(f"JOB {j} {tag} {len(ev)} {' '.join(map(str, ev))}\n" for j, tag, ev in remaining)
        try:
            r = subprocess.run([str(exe)], input=inp.encode(), capture_output=True, timeout=timeout)
            rc, so, se = r.returncode, r.stdout, r.stderr
        except subprocess.TimeoutExpired as te:
            rc, so, se = -999, te.stdout or b"", b"timeout"
        out = so.decode("utf-8", errors="surrogateescape")
        jobs = parse_output(out)
        if rc == 0:
            all_jobs += jobs
            break
        if not jobs:
            raise RuntimeError(f"harness: driver failed rc={rc} before the first job: {se.decode(errors='replace')[:2000]}")
        last = jobs[-1]
        what = f"rc={rc} " + se.decode(errors="replace")[-200:]
        if last.events and last.events[-1].end == "MISSING":
            last.events[-1].end = "CRASH"
            last.events[-1].what = what
        elif not last.complete:
            if last.init == "ok" and not last.events:
                last.init = "CRASH " + what
            else:
                last.events.append(EvtResult(-1, end="CRASH", what=what))
        all_jobs += jobs
        remaining = remaining[len(jobs):]
    return all_jobs


def parse_value(s: str):
    "Parse a printed cell back to Python: number | bool | nested list."
    s = s.strip()
    if s.startswith("["):
        # nested list parser
        pos = 0

        def parse():
            nonlocal pos
            assert s[pos] == "["
            pos += 1
            items = []
            while s[pos] != "]":
                if s[pos] == "[":
                    items.append(parse())
                else:
                    j = pos
                    while s[j] not in ",]":
                        j += 1
                    items.append(parse_value(s[pos:j]))
                    pos = j
                if s[pos] == ",":
                    pos += 1
            pos += 1
            return items
        return parse()
    if s == "true":
        return True
    if s == "false":
        return False
    try:
        v = int(s)
        if v == 0 and s.startswith("-"):
            return -0.0
        return v
    except ValueError:
        return float(s)


class Scratch:
    "Per-run scratch directory outside /repo and /verif, removed on exit."

    def __init__(self, prefix="vmc_"):
        base = os.environ.get("VERIF_TMP") or tempfile.gettempdir()
        self.path = Path(tempfile.mkdtemp(prefix=prefix, dir=base))

    def sub(self, name) -> Path:
        p = self.path / name
        p.mkdir(parents=True, exist_ok=True)
        return p

    def cleanup(self):
        shutil.rmtree(self.path, ignore_errors=True)

    def __enter__(self):
        return self

    def __exit__(self, *a):
        self.cleanup()
