// Verification model runtime: event store, object data, stand-in TTree, line protocol.
// Shared by the three backend models.  Everything here is harness code (trusted base).
#pragma once
#include <cmath>
#include <cstdio>
#include <cstdlib>
#include <cstring>
#include <deque>
#include <functional>
#include <iostream>
#include <map>
#include <memory>
#include <new>
#include <numeric>
#include <sstream>
#include <stdexcept>
#include <string>
#include <type_traits>
#include <vector>

namespace vm {

inline std::string hex(const std::string &s) {
  static const char *d = "0123456789abcdef";
  std::string r;
  for (unsigned char c : s) { r.push_back(d[c >> 4]); r.push_back(d[c & 15]); }
  if (r.empty()) r = "-";
  return r;
}
inline std::string unhex(const std::string &h) {
  if (h == "-") return "";
  std::string r;
  for (size_t i = 0; i + 1 < h.size(); i += 2) r.push_back((char)std::stoi(h.substr(i, 2), nullptr, 16));
  return r;
}

// Thrown when a null link is dereferenced (poisoned null).
struct NullDeref {};

// ------------------------------------------------------------------ object data
struct ObjData {
  double pt = 0, eta = 0, phi = 0;
  int nTrk = 0;
  float q = 0;
  bool good = false;
  std::vector<float> tags;
  std::vector<ObjData> parts;
  std::vector<ObjData> link;  // 0 or 1 entries
  std::map<std::string, float> attrs;
};

struct Bank { std::vector<ObjData> objs; };

struct EventData {
  long id = 0;
  std::map<std::string, Bank> banks;
};

inline std::ostream &out() { return std::cout; }

// current event + per-event materialised object storage
struct Store {
  const EventData *ev = nullptr;
  std::deque<std::shared_ptr<void>> keep;
  void set(const EventData *e) { ev = e; keep.clear(); }
};
inline Store &store() { static Store s; return s; }

inline void parse_obj(std::istream &in, ObjData &o) {
  std::string tok; in >> tok;  // "O"
  if (tok != "O") throw std::runtime_error("harness: bad event text, expected O got " + tok);
  int good, nt, np, hl, na;
  in >> o.pt >> o.eta >> o.phi >> o.nTrk >> o.q >> good >> nt;
  o.good = good != 0;
  o.tags.resize(nt);
  for (auto &t : o.tags) in >> t;
  in >> na;
  for (int i = 0; i < na; i++) { std::string k; float v; in >> k >> v; o.attrs[unhex(k)] = v; }
  in >> np; o.parts.resize(np);
  for (auto &p : o.parts) parse_obj(in, p);
  in >> hl; o.link.resize(hl);
  for (auto &p : o.link) parse_obj(in, p);
}

inline std::vector<EventData> parse_events(std::istream &in) {
  std::vector<EventData> evs; std::string tok;
  while (in >> tok) {
    if (tok == "ENDEVENTS") break;
    if (tok == "E") { evs.emplace_back(); in >> evs.back().id; }
    else if (tok == "C") {
      std::string bank; int n; in >> bank >> n;
      Bank &b = evs.back().banks[unhex(bank)];
      b.objs.resize(n);
      for (auto &o : b.objs) parse_obj(in, o);
    } else throw std::runtime_error("harness: bad event text token " + tok);
  }
  return evs;
}

// ------------------------------------------------------------------ links
// edm::Ref-like / pointer-like link with a poisoned null.
template <class T> class Ref {
  const T *p_;
public:
  Ref(const T *p = nullptr) : p_(p) {}
  bool isNonnull() const { return p_ != nullptr; }
  bool isNull() const { return p_ == nullptr; }
  const T *operator->() const { if (!p_) throw NullDeref(); return p_; }
  const T &operator*() const { if (!p_) throw NullDeref(); return *p_; }
};

// smart-pointer-like wrapper with D levels of operator* / operator-> (what `deref_count` describes)
template <class P, int D> struct Wrap {
  Wrap<P, D - 1> inner;
  Wrap() {}
  explicit Wrap(const P *p) : inner(p) {}
  const Wrap<P, D - 1> &operator*() const { return inner; }
  const Wrap<P, D - 1> *operator->() const { return &inner; }
};
template <class P> struct Wrap<P, 1> {
  const P *p;
  Wrap() : p(nullptr) {}
  explicit Wrap(const P *q) : p(q) {}
  const P &operator*() const { return *p; }
  const P *operator->() const { return p; }
};

// ------------------------------------------------------------------ generic model object
// Self is the concrete experiment class; ElemPtr says whether nested object collections hold pointers (ATLAS) or values (CMS).
template <class Self, bool ElemPtr> class ObjT {
protected:
  const ObjData *d_ = nullptr;
  std::vector<Self> parts_;
  std::vector<const Self *> parts_ptr_;
  std::vector<Self> link_;
public:
  // public data members ("property references" in a query: j.m_pt)
  double m_pt = 0; int m_ntrk = 0; float m_q = 0; bool m_good = false;
  ObjT() {}
  explicit ObjT(const ObjData &d) : d_(&d) {
    m_pt = d.pt; m_ntrk = d.nTrk; m_q = d.q; m_good = d.good;
    for (auto &p : d.parts) parts_.emplace_back(p);
    for (auto &p : d.link) link_.emplace_back(p);
  }
  void fixup() { parts_ptr_.clear(); for (auto &p : parts_) { p.fixup(); parts_ptr_.push_back(&p); } for (auto &l : link_) l.fixup(); }
  double pt() const { return d_->pt; }
  double eta() const { return d_->eta; }
  double phi() const { return d_->phi; }
  double y() const { return d_->eta * 2 + 1; }
  int nTrk() const { return d_->nTrk; }
  float q() const { return d_->q; }
  bool isGood() const { return d_->good; }
  std::vector<float> tags() const { return d_->tags; }
  const std::vector<float> *tagsPtr() const { return &d_->tags; }
  typedef typename std::conditional<ElemPtr, std::vector<const Self *>, std::vector<Self>>::type PartsT;
  const PartsT &parts() const { if constexpr (ElemPtr) return parts_ptr_; else return parts_; }
  Ref<Self> link() const { return Ref<Self>(link_.empty() ? nullptr : &link_[0]); }
  // echo helpers used by the constant-fidelity checks
  double echoD(double v) const { return v; }
  double add2(double a, double b) const { return a + b; }
  int echoI(int v) const { return v; }
  long long echoL(long long v) const { return v; }
  bool echoB(bool v) const { return v; }
  int echoS(const std::string &s) const { out() << "ECHO " << hex(s) << "\n"; return (int)s.size(); }
  int kind(bool) const { return 1; }
  int kind(int) const { return 2; }
  int kind(long) const { return 3; }
  int kind(long long) const { return 3; }
  int kind(unsigned long) const { return 4; }
  int kind(unsigned long long) const { return 4; }
  int kind(float) const { return 5; }
  int kind(double) const { return 6; }
  int kind(long double) const { return 7; }
  int kind(const char *) const { return 8; }
  int kind(const std::string &) const { return 8; }
  template <class R> R getAttribute(const std::string &name) const {
    out() << "ATTR " << hex(name) << "\n";
    if constexpr (std::is_arithmetic<R>::value) {
      auto it = d_->attrs.find(name);
      return it == d_->attrs.end() ? R(0) : R(it->second);
    } else {
      R r; for (auto t : d_->tags) r.push_back(t); return r;
    }
  }
};

// ------------------------------------------------------------------ TTree stand-in
template <class T> struct TypeName;
#define VM_TN(T) template <> struct TypeName<T> { static std::string get() { return #T; } };
VM_TN(int) VM_TN(float) VM_TN(double) VM_TN(bool) VM_TN(long) VM_TN(long long) VM_TN(unsigned) VM_TN(unsigned long) VM_TN(short) VM_TN(char)
template <class E> struct TypeName<std::vector<E>> { static std::string get() { return "std::vector<" + TypeName<E>::get() + ">"; } };

inline void pr(std::ostream &o, bool v) { o << (v ? "true" : "false"); }
inline void pr(std::ostream &o, int v) { o << v; }
inline void pr(std::ostream &o, long v) { o << v; }
inline void pr(std::ostream &o, long long v) { o << v; }
inline void pr(std::ostream &o, unsigned v) { o << v; }
inline void pr(std::ostream &o, unsigned long v) { o << v; }
inline void pr(std::ostream &o, short v) { o << v; }
inline void pr(std::ostream &o, char v) { o << (int)v; }
inline void pr(std::ostream &o, float v) { char b[64]; snprintf(b, sizeof b, "%.17g", (double)v); o << b; }
inline void pr(std::ostream &o, double v) { char b[64]; snprintf(b, sizeof b, "%.17g", v); o << b; }
template <class E> void pr(std::ostream &o, const std::vector<E> &v) {
  o << "[";
  bool first = true;
  for (const auto &e : v) { if (!first) o << ","; first = false; pr(o, (E)e); }
  o << "]";
}

struct BranchRec { std::string name, type; std::function<void(std::ostream &)> print; const void *addr; };

struct TreeRegistry;
}  // namespace vm

class TTree {
public:
  std::string name_, title_;
  std::vector<vm::BranchRec> br_;
  TTree() {}
  TTree(const char *n, const char *t) : name_(n), title_(t) {}
  TTree(const std::string &n, const std::string &t) : name_(n), title_(t) {}
  const char *GetName() const { return name_.c_str(); }
  template <class T> int Branch(const char *name, T *addr) {
    br_.push_back({name, vm::TypeName<T>::get(), [addr](std::ostream &o) { vm::pr(o, *addr); }, addr});
    return 0;
  }
  template <class T> int Branch(const std::string &name, T *addr) { return Branch(name.c_str(), addr); }
  int Fill() {
    std::ostream &o = vm::out();
    o << "ROW " << vm::hex(name_);
    for (auto &b : br_) { o << "\t"; b.print(o); }
    o << "\n";
    return 1;
  }
};

namespace vm {
struct TreeRegistry {
  std::vector<std::shared_ptr<TTree>> trees;
  void reset() { trees.clear(); }
  TTree *find(const std::string &n) { for (auto &t : trees) if (t->name_ == n) return t.get(); return nullptr; }
  void schema() {
    for (auto &t : trees) {
      out() << "SCHEMA " << hex(t->name_);
      for (auto &b : t->br_) out() << " " << hex(b.name) << ":" << hex(b.type);
      // distinct storage check: two branches bound to the same address is reported
      for (size_t i = 0; i < t->br_.size(); i++) for (size_t j = i + 1; j < t->br_.size(); j++)
        if (t->br_[i].addr == t->br_[j].addr) out() << " !ALIAS:" << i << ":" << j;
      out() << "\n";
    }
  }
};
inline TreeRegistry &trees() { static TreeRegistry r; return r; }

// --------------------------------------------------------------- job plan / driver helpers
// The generated algorithm object is built inside storage pre-filled with a loud pattern, so that a data member (a branch
// variable, a flag) that the generated code reads before it has written it yields a recognisable value instead of whatever
// a fresh heap page or stack slot holds (usually 0, which is all too often the right answer).
template <class T> struct Poisoned {
  void *buf; T *obj = nullptr;
  Poisoned() { buf = ::operator new(sizeof(T), std::align_val_t(alignof(T))); std::memset(buf, 0xA5, sizeof(T)); }
  template <class... A> T *make(A &&...a) { obj = new (buf) T(std::forward<A>(a)...); return obj; }
  ~Poisoned() { if (obj) obj->~T(); ::operator delete(buf, std::align_val_t(alignof(T))); }
  Poisoned(const Poisoned &) = delete;
};

// Dirty the stack below the caller with a byte that depends on which event was processed before (0x5A for the first event of a
// job): an uninitialised local of the generated event code then holds history-dependent garbage, as it holds stale values in a
// real job.  (Where locals are pattern-initialised by the compiler - every check but C05 - this has no effect.)
__attribute__((noinline)) inline void scribble(int prev) {
  volatile unsigned char buf[32768];
  unsigned char v = prev < 0 ? 0x5A : (unsigned char)(0x11 * (prev + 1) + 3);
  for (unsigned i = 0; i < sizeof(buf); ++i) buf[i] = v;
}

struct Plan { int job; std::string tag; std::vector<int> events; };
inline std::vector<Plan> parse_plan(std::istream &in) {
  std::vector<Plan> ps; std::string tok;
  while (in >> tok) {
    if (tok != "JOB") throw std::runtime_error("harness: bad plan token " + tok);
    Plan p; int n; in >> p.job >> p.tag >> n; p.events.resize(n);
    for (auto &e : p.events) in >> e;
    ps.push_back(p);
  }
  return ps;
}
}  // namespace vm
