// Model of the ATLAS AnalysisBase pieces the r21 template and the built-in collections use.
#pragma once
#include "vm_runtime.h"

class ISvcLocator;

class StatusCode {
  int c_;
public:
  enum { FAILURE = 0, SUCCESS = 1 };
  StatusCode(int c = SUCCESS) : c_(c) {}
  bool isSuccess() const { return c_ == SUCCESS; }
  bool isFailure() const { return c_ != SUCCESS; }
  void ignore() const {}
  operator int() const { return c_; }
};

// As in AsgMessaging/MessageCheck.h: on failure, report and return a failure code from the enclosing function.
#define ANA_CHECK(EXP) do { StatusCode vm_sc__ = (EXP); if (!vm_sc__.isSuccess()) { return StatusCode::FAILURE; } } while (false)

// AsgMessaging: the message macros are stream-like and available inside an algorithm
#define ANA_MSG_VERBOSE(X) do { std::ostringstream vm_os__; vm_os__ << X; } while (false)
#define ANA_MSG_DEBUG(X) do { std::ostringstream vm_os__; vm_os__ << X; } while (false)
#define ANA_MSG_INFO(X) do { std::ostringstream vm_os__; vm_os__ << X; } while (false)
#define ANA_MSG_WARNING(X) do { std::ostringstream vm_os__; vm_os__ << X; vm::out() << "MSG WARNING " << vm::hex(vm_os__.str()) << "\n"; } while (false)
#define ANA_MSG_ERROR(X) do { std::ostringstream vm_os__; vm_os__ << X; vm::out() << "MSG ERROR " << vm::hex(vm_os__.str()) << "\n"; } while (false)
#define ANA_MSG_FATAL(X) do { std::ostringstream vm_os__; vm_os__ << X; vm::out() << "MSG FATAL " << vm::hex(vm_os__.str()) << "\n"; } while (false)

template <class T> class DataVector {
  std::vector<const T *> v_;
public:
  typedef typename std::vector<const T *>::const_iterator const_iterator;
  void push_back(const T *p) { v_.push_back(p); }
  const_iterator begin() const { return v_.begin(); }
  const_iterator end() const { return v_.end(); }
  size_t size() const { return v_.size(); }
  bool empty() const { return v_.empty(); }
  const T *at(size_t i) const { return v_.at(i); }
  const T *operator[](size_t i) const { return v_[i]; }
};

namespace xAOD {
#define VM_ATLAS_CLASS(NAME) \
  class NAME : public vm::ObjT<NAME, true> { public: NAME() {} explicit NAME(const vm::ObjData &d) : vm::ObjT<NAME, true>(d) {} \
    static const char *vm_container_name() { return "xAOD::" #NAME "Container"; } };
VM_ATLAS_CLASS(Jet)
VM_ATLAS_CLASS(TrackParticle)
VM_ATLAS_CLASS(TruthParticle)
VM_ATLAS_CLASS(Electron)
VM_ATLAS_CLASS(Muon)
VM_ATLAS_CLASS(MissingET)
VM_ATLAS_CLASS(Thing)
typedef Jet Jet_v1;
class EventInfo : public vm::ObjT<EventInfo, true> {
public:
  EventInfo() {}
  explicit EventInfo(const vm::ObjData &d) : vm::ObjT<EventInfo, true>(d) {}
  long eventNumber() const { return vm::store().ev->id; }
  int runNumber() const { return 7; }
};
typedef DataVector<Jet> JetContainer;
typedef DataVector<TrackParticle> TrackParticleContainer;
typedef DataVector<TruthParticle> TruthParticleContainer;
typedef DataVector<Electron> ElectronContainer;
typedef DataVector<Muon> MuonContainer;
typedef DataVector<MissingET> MissingETContainer;
typedef DataVector<Thing> ThingContainer;
struct TFileAccessTracer { static void enableDataSubmission(bool) {} };
}  // namespace xAOD

namespace vm {
class EvtStore {
public:
  template <class T> StatusCode retrieve(const DataVector<T> *&result, const std::string &bank) {
    out() << "REQ " << hex(T::vm_container_name()) << " " << hex(bank) << "\n";
    auto it = store().ev->banks.find(bank);
    if (it == store().ev->banks.end()) { result = nullptr; return StatusCode::FAILURE; }
    auto objs = std::make_shared<std::vector<T>>();
    for (auto &o : it->second.objs) objs->emplace_back(o);
    auto dv = std::make_shared<DataVector<T>>();
    for (auto &o : *objs) { o.fixup(); dv->push_back(&o); }
    store().keep.push_back(objs); store().keep.push_back(dv);
    result = dv.get();
    return StatusCode::SUCCESS;
  }
  StatusCode retrieve(const xAOD::EventInfo *&result, const std::string &bank) {
    out() << "REQ " << hex("xAOD::EventInfo") << " " << hex(bank) << "\n";
    auto it = store().ev->banks.find(bank);
    if (it == store().ev->banks.end() || it->second.objs.empty()) { result = nullptr; return StatusCode::FAILURE; }
    auto o = std::make_shared<xAOD::EventInfo>(it->second.objs[0]);
    o->fixup();
    store().keep.push_back(o);
    result = o.get();
    return StatusCode::SUCCESS;
  }
};
}  // namespace vm

namespace EL {
class AnaAlgorithm {
  vm::EvtStore es_;
public:
  AnaAlgorithm(const std::string &, ISvcLocator *) {}
  virtual ~AnaAlgorithm() {}
  virtual StatusCode initialize() { return StatusCode::SUCCESS; }
  virtual StatusCode execute() { return StatusCode::SUCCESS; }
  virtual StatusCode finalize() { return StatusCode::SUCCESS; }
  vm::EvtStore *evtStore() { return &es_; }
  StatusCode book(const TTree &t) {
    if (vm::trees().find(t.name_)) return StatusCode::FAILURE;
    vm::trees().trees.push_back(std::make_shared<TTree>(t));
    return StatusCode::SUCCESS;
  }
  TTree *tree(const std::string &name) {
    TTree *t = vm::trees().find(name);
    if (!t) throw std::runtime_error("tree not booked: " + name);
    return t;
  }
};
}  // namespace EL

struct TVector2 {
  static double Phi_mpi_pi(double x) { while (x >= M_PI) x -= 2 * M_PI; while (x < -M_PI) x += 2 * M_PI; return x; }
};

namespace vm {
// Run one job (one instance of the generated algorithm) over a list of events.
template <class Alg> void run_job(const Plan &p, const std::vector<EventData> &evs) {
  trees().reset();
  out() << "JOB " << p.job << " " << p.tag << "\n"; out().flush();
  Poisoned<Alg> holder;
  Alg &alg = *holder.make("query", nullptr);
  try {
    StatusCode sc = alg.initialize();
    if (!sc.isSuccess()) { out() << "INIT FAILURE\n"; return; }
  } catch (std::exception &e) { out() << "INIT THROW " << hex(e.what()) << "\n"; return; }
  trees().schema();
  int vm_prev = -1;
  for (int ei : p.events) {
    store().set(&evs.at(ei));
    out() << "BEGIN " << ei << "\n"; out().flush();
    try {
      scribble(vm_prev); vm_prev = ei;      // what an uninitialised local of the event code finds depends on the event before
      StatusCode sc = alg.execute();
      if (sc.isSuccess()) out() << "END ok\n";
      else { out() << "END FAILURE\n"; break; }
    } catch (NullDeref &) { out() << "END NULLDEREF\n"; break; }
    catch (std::exception &e) { out() << "END THROW " << hex(e.what()) << "\n"; break; }
  }
  out() << "ENDJOB\n";
}
}  // namespace vm
