// Model of the CMSSW pieces the r5 (AOD) and r7 (miniAOD) templates and built-in collections use.
#pragma once
#include "vm_runtime.h"

namespace edm {
class ParameterSet {};
class EventSetup {};
class Run {};
class LuminosityBlock {};
class ParameterSetDescription { public: void setUnknown() {} };
class ConfigurationDescriptions { public: void addDefault(const ParameterSetDescription &) {} };

class InputTag {
  std::string label_;
public:
  InputTag() {}
  InputTag(const std::string &l) : label_(l) {}
  const std::string &label() const { return label_; }
};

template <class T> class Handle {
  std::shared_ptr<T> p_;
public:
  Handle() {}
  void vm_set(std::shared_ptr<T> p) { p_ = p; }
  bool isValid() const { return (bool)p_; }
  // As in CMSSW: dereferencing an invalid handle throws (ProductNotFound).
  const T *product() const { if (!p_) throw std::runtime_error("ProductNotFound: invalid handle dereferenced"); return p_.get(); }
  const T *operator->() const { return product(); }
  const T &operator*() const { return *product(); }
};

template <class T> class EDGetTokenT {
  int idx_;
public:
  EDGetTokenT() : idx_(-1) {}
  explicit EDGetTokenT(int i) : idx_(i) {}
  int index() const { return idx_; }
  bool isUninitialized() const { return idx_ < 0; }
};

// product name of a collection type: specialised for the built-in model classes, generic for per-program model classes
template <class T> struct vm_product_name { static std::string get() { return T::value_type::vm_collection_name(); } };

// registry of consumes<> declarations of the module under construction / running
struct vm_consumes {
  std::vector<std::pair<std::string, std::string>> decl;  // (type, bank)
  static vm_consumes &get() { static vm_consumes c; return c; }
};

template <class T> std::shared_ptr<T> vm_materialise(const std::string &bank) {
  vm::out() << "REQ " << vm::hex(vm_product_name<T>::get()) << " " << vm::hex(bank) << "\n";
  auto it = vm::store().ev->banks.find(bank);
  if (it == vm::store().ev->banks.end()) return std::shared_ptr<T>();
  auto c = std::make_shared<T>();
  for (auto &o : it->second.objs) c->emplace_back(o);
  for (auto &o : *c) o.fixup();
  vm::store().keep.push_back(c);
  return c;
}

// The message logger: messages go to stderr (never into the row protocol) when the temporary dies, as in CMSSW.
class vm_log_stream {
  std::ostringstream s_;
public:
  vm_log_stream(const char *sev, const std::string &cat) { s_ << "%MSG-" << sev << " " << cat << ": "; }
  vm_log_stream(vm_log_stream &&o) : s_(std::move(o.s_)) {}
  ~vm_log_stream() { std::cerr << s_.str() << "\n"; }
  template <class T> vm_log_stream &operator<<(const T &v) { s_ << v; return *this; }
};
struct LogError : vm_log_stream { LogError(const std::string &c) : vm_log_stream("e", c) {} };
struct LogWarning : vm_log_stream { LogWarning(const std::string &c) : vm_log_stream("w", c) {} };
struct LogInfo : vm_log_stream { LogInfo(const std::string &c) : vm_log_stream("i", c) {} };
struct LogPrint : vm_log_stream { LogPrint(const std::string &c) : vm_log_stream("p", c) {} };

class EventID {
  unsigned ev_;
public:
  explicit EventID(unsigned e) : ev_(e) {}
  unsigned run() const { return 1; }
  unsigned luminosityBlock() const { return 1; }
  unsigned long long event() const { return ev_; }
};

class Event {
public:
  // position of the event in the job (the model has one run, one luminosity block)
  EventID id() const { return EventID((unsigned)(vm::store().ev ? vm::store().ev->id : 0)); }
  unsigned luminosityBlock() const { return 1; }
  unsigned run() const { return 1; }
  template <class T> bool getByLabel(const std::string &label, Handle<T> &h) const {
    h.vm_set(vm_materialise<T>(label));
    return h.isValid();
  }
  template <class T> bool getByLabel(const InputTag &tag, Handle<T> &h) const { return getByLabel(tag.label(), h); }
  template <class T> bool getByToken(const EDGetTokenT<T> &tok, Handle<T> &h) const {
    if (tok.isUninitialized()) throw std::runtime_error("getByToken with an uninitialized token");
    auto &d = vm_consumes::get().decl.at(tok.index());
    if (d.first != vm_product_name<T>::get()) throw std::runtime_error("token type mismatch");
    h.vm_set(vm_materialise<T>(d.second));
    return h.isValid();
  }
};

class EDAnalyzerBase {
public:
  virtual ~EDAnalyzerBase() {}
  void vm_do_event(const Event &e, const EventSetup &s) { analyze(e, s); }
  void vm_begin_job() { beginJob(); }
  template <class T> EDGetTokenT<T> consumes(const InputTag &tag) {
    auto &c = vm_consumes::get();
    c.decl.push_back({vm_product_name<T>::get(), tag.label()});
    vm::out() << "CONSUMES " << vm::hex(vm_product_name<T>::get()) << " " << vm::hex(tag.label()) << "\n";
    return EDGetTokenT<T>((int)c.decl.size() - 1);
  }
private:
  virtual void beginJob() {}
  virtual void analyze(const Event &, const EventSetup &) = 0;
  virtual void endJob() {}
};
class EDAnalyzer : public EDAnalyzerBase {};
namespace one {
struct SharedResources {};
template <class... A> class EDAnalyzer : public EDAnalyzerBase {};
}  // namespace one

template <class S> class Service {
  S s_;
public:
  S *operator->() { return &s_; }
};
}  // namespace edm

class TFileService {
public:
  template <class T, class... A> T *make(A... a) {
    auto t = std::make_shared<T>(a...);
    vm::trees().trees.push_back(t);
    return t.get();
  }
};

#define DEFINE_FWK_MODULE(X) static const int vm_fwk_module_##X = 1

#define VM_CMS_CLASS(NS, NAME) \
  namespace NS { class NAME : public vm::ObjT<NAME, false> { public: NAME() {} explicit NAME(const vm::ObjData &d) : vm::ObjT<NAME, false>(d) {} \
    vm::Ref<NAME> globalTrack() const { return link(); } vm::Ref<NAME> gsfTrack() const { return link(); } \
    bool isPFMuon() const { return isGood(); } bool isEB() const { return isGood(); } }; \
    typedef std::vector<NAME> NAME##Collection; typedef vm::Ref<NAME> NAME##Ref; } \
  namespace edm { template <> struct vm_product_name<NS::NAME##Collection> { static std::string get() { return #NS "::" #NAME "Collection"; } }; }

VM_CMS_CLASS(reco, Track)
VM_CMS_CLASS(reco, Muon)
VM_CMS_CLASS(reco, Vertex)
VM_CMS_CLASS(reco, GsfElectron)
VM_CMS_CLASS(reco, Thing)
VM_CMS_CLASS(pat, Muon)
VM_CMS_CLASS(pat, Electron)
VM_CMS_CLASS(pat, Thing)

struct TVector2 {
  static double Phi_mpi_pi(double x) { while (x >= M_PI) x -= 2 * M_PI; while (x < -M_PI) x += 2 * M_PI; return x; }
};

namespace vm {
template <class Alg> void run_job(const Plan &p, const std::vector<EventData> &evs) {
  trees().reset();
  edm::vm_consumes::get().decl.clear();
  out() << "JOB " << p.job << " " << p.tag << "\n"; out().flush();
  Poisoned<Alg> holder;
  Alg *alg = nullptr;
  try {
    edm::ParameterSet ps;
    alg = holder.make(ps);
    alg->vm_begin_job();
  } catch (std::exception &e) { out() << "INIT THROW " << hex(e.what()) << "\n"; return; }
  trees().schema();
  edm::Event ev; edm::EventSetup es;
  int vm_prev = -1;
  for (int ei : p.events) {
    store().set(&evs.at(ei));
    out() << "BEGIN " << ei << "\n"; out().flush();
    try {
      scribble(vm_prev); vm_prev = ei;      // what an uninitialised local of the event code finds depends on the event before
      alg->vm_do_event(ev, es);
      out() << "END ok\n";
    } catch (NullDeref &) { out() << "END NULLDEREF\n"; break; }
    catch (std::exception &e) { out() << "END THROW " << hex(e.what()) << "\n"; break; }
  }
  out() << "ENDJOB\n";
}
}  // namespace vm
