"""M3 (Python side): model event data, its text serialisation for the C++ driver, and event domains."""
import itertools
from dataclasses import dataclass, field
from typing import Dict, List, Optional, Tuple


def hx(s: str) -> str:
    b = s.encode("utf-8", errors="surrogateescape")
    return b.hex() if b else "-"


def unhx(h: str) -> bytes:
    return b"" if h == "-" else bytes.fromhex(h)


@dataclass(frozen=True)
class Obj:
    pt: float = 0.0
    eta: float = 0.0
    phi: float = 0.0
    nTrk: int = 0
    q: float = 0.0
    good: bool = False
    tags: Tuple[float, ...] = ()
    parts: Tuple["Obj", ...] = ()
    link: Optional["Obj"] = None
    attrs: Tuple[Tuple[str, float], ...] = ()

    def text(self) -> str:
        t = ["O", repr(float(self.pt)), repr(float(self.eta)), repr(float(self.phi)), str(self.nTrk), repr(float(self.q)),
             "1" if self.good else "0", str(len(self.tags))]
        t += [repr(float(x)) for x in self.tags]
        t.append(str(len(self.attrs)))
        for k, v in self.attrs:
            t += [hx(k), repr(float(v))]
        t.append(str(len(self.parts)))
        s = " ".join(t)
        for p in self.parts:
            s += " " + p.text()
        s += " 1 " + self.link.text() if self.link is not None else " 0"
        return s


@dataclass(frozen=True)
class Event:
    id: int
    banks: Tuple[Tuple[str, Tuple[Obj, ...]], ...]

    def bank(self, name):
        for k, v in self.banks:
            if k == name:
                return v
        return None

    def text(self) -> str:
        lines = [f"E {self.id}"]
        for k, objs in self.banks:
            lines.append(f"C {hx(k)} {len(objs)}")
            for o in objs:
                lines.append(o.text())
        return "\n".join(lines)


def events_text(events: List[Event]) -> str:
    return "\n".join(e.text() for e in events) + "\nENDEVENTS\n"


# ---------------------------------------------------------------- archetypes (all values dyadic -> exact arithmetic)
_leaf_a = Obj(pt=1.5, eta=0.25, phi=0.5, nTrk=1, q=0.5, good=True, tags=(0.75,))
_leaf_b = Obj(pt=-0.5, eta=-1.0, phi=0.25, nTrk=0, q=-1.5, good=False, tags=())

ARCH = [
    # negative, no tags, no parts, null link, not good
    Obj(pt=-1.5, eta=0.5, phi=-0.25, nTrk=0, q=0.25, good=False, tags=(), parts=(), link=None, attrs=(("w", 0.5),)),
    # zero pt, one tag, one part, link
    Obj(pt=0.0, eta=-0.5, phi=1.0, nTrk=1, q=-0.5, good=True, tags=(0.25,), parts=(_leaf_a,), link=_leaf_b, attrs=(("w", 2.0),)),
    # 2.5, two tags, two parts, link
    Obj(pt=2.5, eta=1.0, phi=0.75, nTrk=3, q=1.5, good=True, tags=(0.25, -2.0), parts=(_leaf_b, _leaf_a), link=_leaf_a, attrs=(("w", -1.0),)),
    # tie with previous on pt, differs elsewhere
    Obj(pt=2.5, eta=-2.0, phi=0.125, nTrk=2, q=4.0, good=False, tags=(3.0,), parts=(), link=None, attrs=(("w", 0.25),)),
]
SEC = [
    Obj(pt=4.0, eta=0.75, phi=-0.5, nTrk=2, q=2.0, good=True, tags=(1.0,), parts=(_leaf_a,), link=_leaf_a),
    Obj(pt=-2.0, eta=0.125, phi=2.0, nTrk=5, q=-0.25, good=False, tags=(), parts=(), link=None),
]
EI = Obj(pt=8.0, eta=3.0, phi=0.0, nTrk=4, q=0.5, good=True, tags=(0.5,), parts=(), link=None)


def event_domain(max_primary: int = 2, max_secondary: int = 1, primary="A", secondary="B", with_ei=True) -> List[Event]:
    """Every event whose primary bank is a list of <= max_primary archetypes and whose secondary bank has <= max_secondary."""
    prim = []
    for n in range(max_primary + 1):
        prim += list(itertools.product(range(len(ARCH)), repeat=n))
    sec = []
    for n in range(max_secondary + 1):
        sec += list(itertools.product(range(len(SEC)), repeat=n))
    evs = []
    i = 0
    for p in prim:
        for s in sec:
            banks = [(primary, tuple(ARCH[k] for k in p)), (secondary, tuple(SEC[k] for k in s))]
            if with_ei:
                banks.append(("EI", (EI,)))
            evs.append(Event(i, tuple(banks)))
            i += 1
    return evs


def small_domain(primary="A", secondary="B") -> List[Event]:
    """A compact representative domain: empty, singletons, pairs incl. a tie, a triple."""
    combos = [(), (0,), (1,), (2,), (3,), (2, 3), (0, 2), (1, 0), (3, 2), (2, 2), (0, 1, 2), (2, 0, 3)]
    secs = [(), (0,), (1, 0)]
    evs = []
    i = 0
    for p in combos:
        for s in secs:
            evs.append(Event(i, ((primary, tuple(ARCH[k] for k in p)), (secondary, tuple(SEC[k] for k in s)), ("EI", (EI,)))))
            i += 1
    return evs
