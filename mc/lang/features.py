"""Structural features of a query text, used only to give known findings a narrow signature."""
import ast
from typing import Set

SEQ_OPS = {"Select", "Where", "SelectMany", "Count", "Sum", "Min", "Max", "First", "Aggregate"}


def _recv_root(call: ast.Call):
    "Text of the collection expression a chain of sequence operators starts from."
    n = call
    while isinstance(n, ast.Call) and isinstance(n.func, ast.Attribute) and n.func.attr in SEQ_OPS:
        n = n.func.value
    return ast.unparse(n)


def features(text: str) -> Set[str]:
    feats: Set[str] = set()
    try:
        tree = ast.parse(text, mode="eval")
    except SyntaxError:
        return feats

    class V(ast.NodeVisitor):
        def __init__(self):
            self.stack = []   # roots of enclosing iterations

        def visit_Call(self, n):
            is_seq = isinstance(n.func, ast.Attribute) and n.func.attr in SEQ_OPS
            if is_seq:
                root = _recv_root(n)
                if root in self.stack and root != "ds":
                    feats.add("nested-same-collection")
                self.visit(n.func.value)
                lambdas = [a for a in n.args if isinstance(a, ast.Lambda)]
                others = [a for a in n.args if not isinstance(a, ast.Lambda)]
                for a in others:
                    self.visit(a)
                self.stack.append(root)
                for lam in lambdas:
                    self.visit(lam.body)
                self.stack.pop()
            else:
                self.generic_visit(n)
    V().visit(tree)
    # a lambda parameter bound to a sequence that is the root of two or more sequence operations
    for lam in [n for n in ast.walk(tree) if isinstance(n, ast.Lambda)]:
        for a in lam.args.args:
            uses = 0
            for n in ast.walk(lam.body):
                if isinstance(n, ast.Call) and isinstance(n.func, ast.Attribute) and n.func.attr in SEQ_OPS and _recv_root(n) == a.arg and \
                        isinstance(n.func.value, ast.Name):
                    uses += 1
            if uses >= 2:
                feats.add("seq-variable-reused")
    # a projection that ignores its element but uses a variable of an ENCLOSING lambda (Select(lambda t: j.q())) feeding
    # an aggregate / First / another projection.  Projections to pure literals are deliberately not tagged.
    AGG = {"Count", "Sum", "Min", "Max", "First", "Aggregate"}

    def ignoring_select(node, bound):
        if isinstance(node, ast.Call) and isinstance(node.func, ast.Attribute) and node.func.attr == "Select" and node.args and isinstance(node.args[0], ast.Lambda):
            lam = node.args[0]
            p = lam.args.args[0].arg
            names = {x.id for x in ast.walk(lam.body) if isinstance(x, ast.Name)}
            return p not in names and bool(names & bound) and not (isinstance(node.func.value, ast.Name) and node.func.value.id == "ds")
        return False

    def walk(node, bound):
        # only where the element-ignoring projection FEEDS an aggregate / First (directly or through further Where / Select steps):
        # filling such a projection into a list column or into rows is translated correctly and must stay checked
        if isinstance(node, ast.Call) and isinstance(node.func, ast.Attribute) and node.func.attr in AGG:
            cur = node.func.value
            while isinstance(cur, ast.Call) and isinstance(cur.func, ast.Attribute) and cur.func.attr in ("Select", "Where"):
                if ignoring_select(cur, bound):
                    feats.add("selector-ignores-element")
                    break
                cur = cur.func.value
            # ... or through a flattening step: X.SelectMany(lambda j: <seq>.Select(lambda t: j.q())).Sum() - the element-ignoring
            # projection is the tail of the SelectMany lambda's body
            if isinstance(cur, ast.Call) and isinstance(cur.func, ast.Attribute) and cur.func.attr == "SelectMany" and cur.args and isinstance(cur.args[0], ast.Lambda):
                lam = cur.args[0]
                b2 = bound | {a.arg for a in lam.args.args}
                inner = lam.body
                while isinstance(inner, ast.Call) and isinstance(inner.func, ast.Attribute) and inner.func.attr in ("Select", "Where"):
                    if ignoring_select(inner, b2):
                        feats.add("selector-ignores-element")
                        break
                    inner = inner.func.value
        if isinstance(node, ast.Lambda):
            b2 = bound | {a.arg for a in node.args.args}
            walk(node.body, b2)
            return
        for c in ast.iter_child_nodes(node):
            walk(c, bound)
    walk(tree, set())
    # First() of a sequence whose elements are projected / filtered sequences: X.Select(lambda j: <seq>.Select|Where(...)).First()
    for n in ast.walk(tree):
        if isinstance(n, ast.Call) and isinstance(n.func, ast.Attribute) and n.func.attr == "First":
            cur = n.func.value
            while isinstance(cur, ast.Call) and isinstance(cur.func, ast.Attribute) and cur.func.attr == "Where":
                cur = cur.func.value
            if isinstance(cur, ast.Call) and isinstance(cur.func, ast.Attribute) and cur.func.attr == "Select" and cur.args and isinstance(cur.args[0], ast.Lambda):
                b = cur.args[0].body
                if isinstance(b, ast.Call) and isinstance(b.func, ast.Attribute) and b.func.attr in ("Select", "Where", "SelectMany"):
                    feats.add("first-of-projected-sequences")
    # rows per object whose column is itself a sequence
    top = tree.body
    if isinstance(top, ast.Call) and isinstance(top.func, ast.Attribute) and top.func.attr == "Select" and top.args and isinstance(top.args[0], ast.Lambda):
        src = top.func.value
        body = top.args[0].body
        roots_sm = False
        cur = src
        while isinstance(cur, ast.Call) and isinstance(cur.func, ast.Attribute):
            if cur.func.attr == "SelectMany":
                roots_sm = True
            cur = cur.func.value
        def is_seq(b):
            return (isinstance(b, ast.Call) and ((isinstance(b.func, ast.Attribute) and b.func.attr in ("Select", "Where", "SelectMany")) or
                                                 (isinstance(b.func, ast.Name) and b.func.id == "Range")))
        elems = body.elts if isinstance(body, (ast.Tuple, ast.List)) else [body]
        if roots_sm and any(is_seq(b) for b in elems):
            feats.add("per-object-seq-column")
    if "Range(" in text:
        feats.add("range")
    if ".Max()" in text or ".Min()" in text:
        feats.add("minmax")
    return feats
