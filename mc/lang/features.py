"""Structural features of a query text, used only to give known findings a narrow signature."""
import ast
from typing import Set

SEQ_OPS = {"Select", "Where", "SelectMany", "Count", "Sum", "Min", "Max", "First", "Aggregate"}


def _recv_root(call: ast.Call):
    "Text of the collection expression a chain of sequence operators starts from."
    n = call
    while isinstance(n, ast.Call) and isinstance(n.func, ast.Attribute) and n.func.attr in SEQ_OPS:
        n = n.func.value
    return ast.unparse(n)


def features(text: str) -> Set[str]:
    feats: Set[str] = set()
    try:
        tree = ast.parse(text, mode="eval")
    except SyntaxError:
        return feats

    class V(ast.NodeVisitor):
        def __init__(self):
            self.stack = []   # roots of enclosing iterations

        def visit_Call(self, n):
            is_seq = isinstance(n.func, ast.Attribute) and n.func.attr in SEQ_OPS
            if is_seq:
                root = _recv_root(n)
                if root in self.stack and root != "ds":
                    feats.add("nested-same-collection")
                self.visit(n.func.value)
                lambdas = [a for a in n.args if isinstance(a, ast.Lambda)]
                others = [a for a in n.args if not isinstance(a, ast.Lambda)]
                for a in others:
                    self.visit(a)
                self.stack.append(root)
                for lam in lambdas:
                    self.visit(lam.body)
                self.stack.pop()
            else:
                self.generic_visit(n)
    V().visit(tree)
    if "Range(" in text:
        feats.add("range")
    if ".Max()" in text or ".Min()" in text:
        feats.add("minmax")
    return feats
