"""Sequence-parameter family: ONE collection (or a filtered / projected view of it) is bound to a lambda parameter by a
plain Select and then used several times at DIFFERENT loop depths of the next step - inside a Range loop first and at
event level afterwards, the other way round, or twice inside.  The translator meets the very same call node once per
scope, which is where per-call-site state (the miniAOD token member, cached representations) shows.
"""
import itertools

from mc.lang import qgen


def queries(backend):
    a = qgen.ALPHA[backend]
    A = f"e.{a.primary}('A')"
    heads = {
        "coll": (A, "obj"),
        "where": (f"{A}.Where(lambda j: j.pt() > 1)", "obj"),
        "nums": (f"{A}.Select(lambda j: j.pt())", "num"),
    }
    out = []
    for hk, (h, kind) in heads.items():
        if kind == "obj":
            outer = {"count": "js.Count()", "pts": "js.Select(lambda j: j.pt())"}
            inner = {"count": "js.Count()", "count+i": "js.Count() + i", "sum+i": "js.Select(lambda j: j.pt() + i).Sum()"}
        else:
            outer = {"count": "js.Count()", "vals": "js.Select(lambda v: v * 2)"}
            inner = {"count": "js.Count()", "count+i": "js.Count() + i", "sum+i": "js.Select(lambda v: v + i).Sum()"}
        for (ok, o), (ik, i) in itertools.product(outer.items(), inner.items()):
            r = f"Range(0, 2).Select(lambda i: {i})"
            out.append((f"{hk}:inner-first:{ok}:{ik}", f"ds.Select(lambda e: {h}).Select(lambda js: ({r}, {o}))"))
            out.append((f"{hk}:outer-first:{ok}:{ik}", f"ds.Select(lambda e: {h}).Select(lambda js: ({o}, {r}))"))
        for (i1k, i1), (i2k, i2) in itertools.combinations(inner.items(), 2):
            out.append((f"{hk}:inner-twice:{i1k}:{i2k}", f"ds.Select(lambda e: {h}).Select(lambda js: (Range(0, 2).Select(lambda i: {i1}), Range(0, 3).Select(lambda i: {i2})))"))
        for ik, i in inner.items():
            out.append((f"{hk}:inner-only:{ik}", f"ds.Select(lambda e: {h}).Select(lambda js: Range(0, 2).Select(lambda i: {i}))"))
            out.append((f"{hk}:where-then-inner:{ik}", f"ds.Select(lambda e: {h}).Where(lambda js: js.Count() > 0).Select(lambda js: Range(0, 2).Select(lambda i: {i}))"))
    # the bound sequence inside a CONDITIONAL: in the test, inside an arm (which is a block of its own) and once more at event
    # level - before or after the conditional.  What the arm computed stays in the arm; the event-level use is computed for
    # every event, whichever arm was taken
    for hk, (h, kind) in heads.items():
        proj = "js.Select(lambda j: j.pt())" if kind == "obj" else "js"
        conds = {"sum-if-any": f"({proj}.Sum() if js.Count() > 0 else -1.0)", "count-if-many": "(js.Count() if js.Count() > 1 else 0)",
                 "sum-else": f"(-1.0 if js.Count() == 0 else {proj}.Sum())", "sum-both-arms": f"({proj}.Sum() if js.Count() > 1 else {proj}.Sum() * 2)"}
        afters = {"count": "js.Count()", "sum": f"{proj}.Sum()", "vals": proj}
        for (ck, c), (ak, af) in itertools.product(conds.items(), afters.items()):
            out.append((f"{hk}:cond-then-use:{ck}:{ak}", f"ds.Select(lambda e: {h}).Select(lambda js: ({c}, {af}))"))
            out.append((f"{hk}:use-then-cond:{ck}:{ak}", f"ds.Select(lambda e: {h}).Select(lambda js: ({af}, {c}))"))
        for ck, c in conds.items():
            out.append((f"{hk}:cond-dict:{ck}", f"ds.Select(lambda e: {h}).Select(lambda js: {{'lead': {c}, 'n': js.Count()}})"))
    return out
