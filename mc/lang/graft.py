"""Grafting unsupported constructs into valid host queries (C09)."""
import ast
import copy
from typing import Iterator, List, Tuple

SEQ_ATTRS = {"Select", "Where", "SelectMany", "parts", "tags", "Jets", "Electrons", "Muons", "Tracks", "TruthParticles"}
VAL_ATTRS = {"pt", "eta", "phi", "nTrk", "q", "Count", "Sum", "Max", "Min", "Aggregate"}


def kind_of(n: ast.AST) -> str:
    if isinstance(n, ast.Call):
        if isinstance(n.func, ast.Attribute):
            if n.func.attr in SEQ_ATTRS:
                return "seq"
            if n.func.attr in VAL_ATTRS:
                return "value"
            if n.func.attr == "First":
                return "first"
        if isinstance(n.func, ast.Name) and n.func.id == "Range":
            return "seq"
        if isinstance(n.func, ast.Name) and n.func.id == "abs":
            return "value"
        return "other"
    if isinstance(n, ast.Constant) and isinstance(n.value, (int, float)) and not isinstance(n.value, bool):
        return "value"
    if isinstance(n, (ast.BinOp, ast.IfExp)):
        return "value"
    if isinstance(n, ast.UnaryOp) and isinstance(n.op, ast.USub):
        return "value"
    if isinstance(n, (ast.Compare, ast.BoolOp)) or (isinstance(n, ast.UnaryOp) and isinstance(n.op, ast.Not)):
        return "bool"
    if isinstance(n, ast.Name):
        return "name"
    return "other"


# construct id -> (applies to kinds, template with __X__ placeholder)
VALUE_MENU = {
    "floordiv": "__X__ // 2", "lshift": "__X__ << 1", "rshift": "__X__ >> 1", "bitor": "__X__ | 1", "bitand": "__X__ & 1",
    "bitxor": "__X__ ^ 1", "matmul": "__X__ @ 2", "invert": "~__X__", "chained-compare": "0 < __X__ < 10",
    "is": "__X__ is None", "isnot": "__X__ is not 1", "in": "__X__ in (1, 2)", "notin": "__X__ not in (1, 2)",
    "value-select": "__X__.Select(lambda zz: zz + 1)", "value-count": "__X__.Count()", "value-first": "__X__.First()",
    "value-where": "__X__.Where(lambda zz: zz > 0)", "none-const": "None", "bytes-const": "b'x'", "complex-const": "1j",
    # integer constants no 64-bit C++ integer holds (just beyond the range, and far beyond it)
    "int-2^63": "9223372036854775808", "int-2^64-1": "18446744073709551615", "int-below-min": "-9223372036854775809", "int-1e30": "1000000000000000000000000000000",
    "value-index": "__X__[0]", "value-slice": "__X__[0:1]", "set-display": "{__X__, 1}", "fstring": "f'{__X__}'", "ellipsis-const": "...",
}
SEQ_MENU = {
    "seq-plus": "__X__ + 1", "seq-compare": "__X__ > 1", "seq-slice": "__X__[0:1]", "seq-neg": "-__X__",
    "aggregate-only": "__X__.Aggregate(lambda a, v: a + v)", "aggregate-func-func": "__X__.Aggregate(lambda v: v, lambda a, v: a + v)",
    "seq-step-slice": "__X__[::2]", "seq-plus-self": "__X__ + __X__", "seq-minus-self": "__X__ - __X__", "seq-times-self": "__X__ * __X__",
    "seq-div-self": "__X__ / __X__", "seq-mod-self": "__X__ % __X__", "seq-pow-self": "__X__ ** __X__", "seq-compare-self": "__X__ == __X__", "seq-unknown-op": "__X__.OrderBy(lambda zz: zz)", "seq-call": "__X__(1)",
}
OBJ_CALL_MENU = {      # applied to a method call node  recv.m(args)
    "kwargs": None, "getattribute": None,
}


class _Replace(ast.NodeTransformer):
    def __init__(self, target_index, make):
        self.i = -1
        self.target = target_index
        self.make = make
        self.done = False

    def visit(self, node):
        if isinstance(node, ast.expr):
            self.i += 1
            if self.i == self.target and not self.done:
                self.done = True
                return self.make(node)
        return super().visit(node)


def _expr_nodes(tree) -> List[ast.expr]:
    out = []

    class V(ast.NodeVisitor):
        def visit(self, node):
            if isinstance(node, ast.expr):
                out.append(node)
            super().visit(node)
    V().visit(tree)
    return out


def _fill(template: str, x: ast.expr) -> ast.expr:
    t = ast.parse(template, mode="eval").body

    class F(ast.NodeTransformer):
        def visit_Name(self, n):
            if n.id == "__X__":
                return copy.deepcopy(x)
            return n
    return F().visit(t)


def grafts(text: str) -> Iterator[Tuple[str, str, str, str]]:
    """Yields (construct id, position description, position kind, grafted query text)."""
    tree = ast.parse(text, mode="eval").body
    nodes = _expr_nodes(tree)
    for idx, n in enumerate(nodes):
        k = kind_of(n)
        # never graft on the dataset name itself or on lambda objects / string constants
        if isinstance(n, ast.Name) and n.id == "ds":
            continue
        where = f"{idx}:{ast.unparse(n)[:40]}"
        menu = {}
        if k == "value":
            menu = VALUE_MENU
        elif k == "seq" and not (isinstance(n, ast.Call) and _is_root_chain(n, tree)):
            menu = SEQ_MENU
        elif k == "bool":
            menu = {c: VALUE_MENU[c] for c in ("invert", "is", "in", "floordiv", "value-count")}
        for cid, tmpl in menu.items():
            t2 = copy.deepcopy(tree)
            t2 = _Replace(idx, lambda x, tmpl=tmpl: _fill(tmpl, x)).visit(t2)
            yield cid, where, k, ast.unparse(ast.fix_missing_locations(t2))
        # a keyword argument on ANY call (collection fetch, LINQ operator, aggregate, Range, math function, ...): nothing in
        # the translation honours one, so each must be refused rather than dropped
        if isinstance(n, ast.Call) and not n.keywords and not (isinstance(n.func, ast.Attribute) and n.func.attr in ("pt", "eta", "nTrk", "q")):
            t5 = copy.deepcopy(tree)

            def kw_any(x):
                y = copy.deepcopy(x)
                y.keywords = [ast.keyword(arg="extra", value=ast.Constant(1))]
                return y
            fname = n.func.attr if isinstance(n.func, ast.Attribute) else getattr(n.func, "id", "?")
            yield "kwargs-on-" + fname, where, "call", ast.unparse(ast.fix_missing_locations(_Replace(idx, kw_any).visit(t5)))
        # method calls on objects: keyword arguments and the templated getAttribute
        if isinstance(n, ast.Call) and isinstance(n.func, ast.Attribute) and n.func.attr in ("pt", "eta", "nTrk", "q") and not n.keywords:
            t2 = copy.deepcopy(tree)

            def kw(x):
                y = copy.deepcopy(x)
                y.keywords = [ast.keyword(arg="scale", value=ast.Constant(2))]
                return y
            yield "kwargs", where, "call", ast.unparse(ast.fix_missing_locations(_Replace(idx, kw).visit(t2)))
            t3 = copy.deepcopy(tree)

            def ga(x):
                y = copy.deepcopy(x)
                y.func.attr = "getAttribute"
                y.args = [ast.Constant("x")]
                return y
            yield "getattribute", where + f" recv={type(n.func.value).__name__}", "call", ast.unparse(ast.fix_missing_locations(_Replace(idx, ga).visit(t3)))
            t4 = copy.deepcopy(tree)

            def ga2(x):
                y = copy.deepcopy(x)
                y.func.attr = "getAttribute"
                y.args = [ast.Constant("x")]
                y.func.value = ast.IfExp(test=ast.Constant(True), body=copy.deepcopy(x.func.value), orelse=copy.deepcopy(x.func.value))
                return y
            yield "getattribute-ifexp-recv", where, "call", ast.unparse(ast.fix_missing_locations(_Replace(idx, ga2).visit(t4)))


def _is_root_chain(n, tree) -> bool:
    "True for the calls of the top-level chain (ds.Select(...).Where(...)): grafting there changes the query's row type."
    cur = tree
    while isinstance(cur, ast.Call) and isinstance(cur.func, ast.Attribute):
        if cur is n:
            return True
        cur = cur.func.value
    return False
