"""Intermediate-structure family: one Select packs several things of an event into a tuple, a list or a dictionary, later
steps (Where, re-packing Select, final Select) read the fields back by index, by key or by attribute - the usual way
func_adl queries carry several collections along.  Enumerated: ordered pairs of distinct fields (object sequence A,
object sequence B, a count, a sequence of numbers) x structure kind and access form x middle step x final use (each
field alone, and one field used inside the other's lambda).
"""
import itertools

from mc.lang import qgen


def queries(backend):
    a = qgen.ALPHA[backend]
    A = f"e.{a.primary}('A')"
    B = f"e.{a.secondary}('B')"
    fields = {
        "jets": (A, "seqobj"),
        "els": (B, "seqobj"),
        "n": (f"{A}.Count()", "num"),
        "pts": (f"{A}.Select(lambda j: j.pt())", "seqnum"),
        "good": (f"{A}.Where(lambda j: j.pt() > 1)", "seqobj"),
    }

    def uses(x, kind):
        if kind == "seqobj":
            return [f"{x}.Select(lambda o: o.pt())", f"{x}.Count()", f"{x}.Where(lambda o: o.pt() > 1).Count()"]
        if kind == "num":
            return [x, f"({x} + 1)"]
        return [x, f"{x}.Count()", f"{x}.Select(lambda v: v * 2)"]

    def cross(x, kx, y, ky):
        "x used inside a lambda over y (or the other way round)"
        out = []
        if ky == "seqobj" and kx == "num":
            out.append(f"{y}.Select(lambda o: o.pt() + {x})")
        if ky == "seqobj" and kx in ("seqobj", "seqnum"):
            out.append(f"{y}.Select(lambda o: {x}.Count())")
        if ky == "seqnum" and kx == "num":
            out.append(f"{y}.Select(lambda v: v + {x})")
        if ky == "seqobj" and kx == "seqobj":
            out.append(f"{y}.Select(lambda o: {x}.Where(lambda p: p.pt() > o.pt()).Count())")
        return out

    def cond(x, kind):
        return f"{x} > 0" if kind == "num" else f"{x}.Count() > 0"

    out = []
    for (n1, (e1, k1)), (n2, (e2, k2)) in itertools.permutations(fields.items(), 2):
        kinds = {
            "tuple": (f"({e1}, {e2})", "d[0]", "d[1]", lambda p, q: f"({p}, {q})"),
            "list": (f"[{e1}, {e2}]", "d[0]", "d[1]", lambda p, q: f"[{p}, {q}]"),
            "dict-attr": (f"{{'{n1}': {e1}, '{n2}': {e2}}}", f"d.{n1}", f"d.{n2}", lambda p, q: f"{{'{n1}': {p}, '{n2}': {q}}}"),
            "dict-key": (f"{{'{n1}': {e1}, '{n2}': {e2}}}", f"d['{n1}']", f"d['{n2}']", lambda p, q: f"{{'{n1}': {p}, '{n2}': {q}}}"),
        }
        for sk, (pack, a1, a2, repack) in kinds.items():
            head = f"ds.Select(lambda e: {pack})"
            middles = {
                "none": "",
                "where-first": f".Where(lambda d: {cond(a1, k1)})",
                "where-second": f".Where(lambda d: {cond(a2, k2)})",
                "repack": f".Select(lambda d: {repack(a1, a2)})",
                "where-repack": f".Where(lambda d: {cond(a1, k1)}).Select(lambda d: {repack(a1, a2)})",
            }
            for mk, mid in middles.items():
                finals = [f"({u1}, {u2})" for u1 in uses(a1, k1)[:2] for u2 in uses(a2, k2)[:2]]
                finals += uses(a1, k1)[2:] + uses(a2, k2)[2:]
                finals += cross(a1, k1, a2, k2) + cross(a2, k2, a1, k1)
                for fin in finals:
                    out.append((f"{sk}:{mk}", f"{head}{mid}.Select(lambda d: {fin})"))
    seen = set()
    res = []
    for ctx, q in out:
        if q not in seen:
            seen.add(q)
            res.append((ctx, q))
    return res
