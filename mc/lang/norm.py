"""M5: name normalisation.  Generated identifiers end in the harness-owned counter value (70dddd); lambda arguments
introduced by func_adl's simplifier are arg_N.  Both are renumbered in order of first appearance."""
import hashlib
import re
from typing import Dict

_name_re = re.compile(r"([A-Za-z_][A-Za-z_0-9.]*?)?(70\d{4})\b")
_arg_re = re.compile(r"\barg_(\d+)\b")


def normalise_text(text: str, table: Dict[str, str] = None) -> str:
    table = {} if table is None else table

    def sub(m):
        key = "n" + m.group(2)
        if key not in table:
            table[key] = f"#{sum(1 for k in table if k.startswith('n'))}"
        return (m.group(1) or "") + table[key]

    def sub_arg(m):
        key = "a" + m.group(1)
        if key not in table:
            table[key] = f"arg#{sum(1 for k in table if k.startswith('a'))}"
        return table[key]
    return _arg_re.sub(sub_arg, _name_re.sub(sub, text))


def normalise_files(files: Dict[str, str]) -> Dict[str, str]:
    table: Dict[str, str] = {}
    # the event-code file first so numbering follows the order in the query code
    order = sorted(files, key=lambda n: (0 if n in ("query.cxx", "Analyzer.cc") else 1, n))
    return {n: normalise_text(files[n], table) for n in order}


def digest_files(files: Dict[str, str]) -> str:
    h = hashlib.sha256()
    nf = normalise_files(files)
    for n in sorted(nf):
        h.update(n.encode())
        h.update(b"\0")
        h.update(nf[n].encode("utf-8", errors="surrogateescape"))
        h.update(b"\0")
    return h.hexdigest()[:20]


def first_diff(fa: Dict[str, str], fb: Dict[str, str]) -> str:
    na, nb = normalise_files(fa), normalise_files(fb)
    for n in sorted(set(na) | set(nb)):
        a, b = na.get(n, "").split("\n"), nb.get(n, "").split("\n")
        for i, (x, y) in enumerate(zip(a, b)):
            if x != y:
                return f"{n}:{i + 1}: {x.strip()!r} != {y.strip()!r}"
        if len(a) != len(b):
            return f"{n}: {len(a)} lines != {len(b)} lines"
    return ""
