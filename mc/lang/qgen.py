"""M1: typed query enumerator.

The explored transition system is the derivation graph of a typed attribute grammar for the supported LINQ fragment:
a state is a (non-terminal, environment, remaining operator budget) triple, a transition applies one production.
`Gen(...).queries(k)` enumerates every complete well-typed query that uses exactly k operators (canonical bound
variable names, so alpha-variants are a single state).  Leaves are *slots*: the first alternative is the default and
`expand(term, d)` enumerates every way of deviating from the default in at most d slots.
"""
import itertools
from dataclasses import dataclass, field
from functools import lru_cache
from typing import Dict, Iterator, List, Optional, Tuple

# ----------------------------------------------------------------------------- terms with slots


class Slot:
    __slots__ = ("alts", "kind")

    def __init__(self, alts, kind=""):
        self.alts = tuple(alts)
        self.kind = kind

    def __repr__(self):
        return f"Slot({self.kind}:{self.alts[0]})"


def T(*pieces):
    "Build a term (tuple of str | Slot), flattening nested terms."
    out = []
    for p in pieces:
        if isinstance(p, tuple):
            out.extend(p)
        else:
            out.append(p)
    return tuple(out)


def render(term, choice: Dict[int, int] = None) -> str:
    s = []
    k = 0
    for p in term:
        if isinstance(p, Slot):
            s.append(p.alts[(choice or {}).get(k, 0)])
            k += 1
        else:
            s.append(p)
    return "".join(s)


def slots_of(term) -> List[Slot]:
    return [p for p in term if isinstance(p, Slot)]


def expand(term, d: int) -> Iterator[Tuple[str, int]]:
    """All renderings deviating from the defaults in at most d slots: yields (text, number of deviations)."""
    sl = slots_of(term)
    yield render(term), 0
    for n in range(1, d + 1):
        for pos in itertools.combinations(range(len(sl)), n):
            ranges = [range(1, len(sl[p].alts)) for p in pos]
            for alt in itertools.product(*ranges):
                yield render(term, dict(zip(pos, alt))), n


# ----------------------------------------------------------------------------- backend alphabets

@dataclass(frozen=True)
class BackendAlphabet:
    backend: str
    primary: str            # e.g. "Jets"
    primary_cls: str        # e.g. "xAOD::Jet"
    secondary: str
    secondary_cls: str
    elem_ptr: bool          # nested object collections hold pointers
    has_nonnull: bool


ALPHA = {
    "atlas": BackendAlphabet("atlas", "Jets", "xAOD::Jet", "Electrons", "xAOD::Electron", True, False),
    "cms_aod": BackendAlphabet("cms_aod", "Muons", "reco::Muon", "Tracks", "reco::Track", False, True),
    "cms_miniaod": BackendAlphabet("cms_miniaod", "Muons", "pat::Muon", "Electrons", "pat::Electron", False, True),
}


def method_metadata(alpha: BackendAlphabet) -> List[dict]:
    "Declarations of the model methods the grammar uses, for both model classes (carried by the query itself)."
    md = []
    for cls in (alpha.primary_cls, alpha.secondary_cls):
        star = "*" if alpha.elem_ptr else ""
        md += [
            {"metadata_type": "add_method_type_info", "type_string": cls, "method_name": "nTrk", "return_type": "int"},
            {"metadata_type": "add_method_type_info", "type_string": cls, "method_name": "q", "return_type": "float"},
            {"metadata_type": "add_method_type_info", "type_string": cls, "method_name": "isGood", "return_type": "bool"},
            {"metadata_type": "add_method_type_info", "type_string": cls, "method_name": "tags", "return_type_element": "float"},
            {"metadata_type": "add_method_type_info", "type_string": cls, "method_name": "parts", "return_type_element": cls + star},
            {"metadata_type": "add_method_type_info", "type_string": cls, "method_name": "link", "return_type": cls + "*"},
        ]
    return md


# ----------------------------------------------------------------------------- the grammar

@dataclass
class GenCfg:
    tuples: bool = True
    two_step: bool = True        # ds.Select(lambda e: seq).Select(lambda js: ...)
    ev_where: bool = True
    ranges: bool = True
    closures: bool = True        # leaves may refer to outer lambda variables
    partial: bool = True         # First / index
    minmax: bool = True
    ifexp: bool = True
    boolops: bool = True
    fn: bool = True
    seq2: bool = True            # 2-D outputs
    parts: bool = True
    dicts: bool = False


class Gen:
    """env: tuple of (name, type) with type in {'ev','obj','num','seqobj'}; depth-based canonical variable names."""

    def __init__(self, backend: str, cfg: GenCfg = None):
        self.a = ALPHA[backend]
        self.cfg = cfg or GenCfg()
        self._memo = {}

    # -- leaves ---------------------------------------------------------------
    def _innermost(self, env, ty):
        for n, t in reversed(env):
            if t == ty:
                return n
        return None

    def num_leaf(self, env) -> Slot:
        alts = []
        j = self._innermost(env, "obj")
        x = self._innermost(env, "num")
        # default: the innermost bound variable
        inner = env[-1]
        if inner[1] == "num":
            alts.append(inner[0])
        elif inner[1] == "obj":
            alts.append(f"{inner[0]}.pt()")
        if j is not None:
            for m in ("pt", "eta", "nTrk", "q"):
                s = f"{j}.{m}()"
                if s not in alts:
                    alts.append(s)
        if x is not None and x not in alts:
            alts.append(x)
        alts += ["1", "2", "0.5"]
        if self.cfg.closures:
            seen_obj = 0
            for n, t in reversed(env):
                if t == "obj":
                    seen_obj += 1
                    if seen_obj > 1:
                        alts.append(f"{n}.pt()")
                if t == "num" and n != x:
                    alts.append(n)
        return Slot(alts, "num")

    def bool_leaf(self, env) -> Slot:
        alts = []
        inner = env[-1]
        j = self._innermost(env, "obj")
        if inner[1] == "num":
            v = inner[0]
            alts += [f"{v} > 1", f"{v} == 0.25", f"{v} <= 0", f"{v} != 2.5"]
        if j is not None:
            alts += [f"{j}.pt() > 1", f"{j}.pt() == 2.5", f"{j}.pt() <= 0", f"{j}.nTrk() >= 1", f"{j}.isGood()", f"{j}.eta() < 0"]
        e = self._innermost(env, "ev")
        if (inner[1] == "ev" or not alts) and e is not None:
            alts += [f"{e}.{self.a.primary}('A').Count() > 1", f"{e}.{self.a.primary}('A').Count() == 0", f"{e}.{self.a.secondary}('B').Count() >= 1"]
        sq = self._innermost(env, "seqobj")
        if sq is not None and (inner[1] == "seqobj" or not alts):
            alts += [f"{sq}.Count() > 1", f"{sq}.Count() == 0"]
        if not alts:
            alts = ["1 > 0"]
        return Slot(alts, "bool")

    def coll(self, env) -> Optional[Slot]:
        e = self._innermost(env, "ev")
        if e is None:
            return None
        return Slot([f"{e}.{self.a.primary}('A')", f"{e}.{self.a.secondary}('B')"], "coll")

    def var(self, env) -> str:
        names = {n for n, _ in env}
        i = 1
        while f"j{i}" in names:
            i += 1
        return f"j{i}"

    # -- non-terminals: each returns a list of terms using exactly n operators --
    def _m(self, key, fn):
        r = self._memo.get(key)
        if r is None:
            r = list(fn())
            self._memo[key] = r
        return r

    def V(self, env, n) -> List[tuple]:
        return self._m(("V", env, n), lambda: self._V(env, n))

    def B(self, env, n) -> List[tuple]:
        return self._m(("B", env, n), lambda: self._B(env, n))

    def SO(self, env, n) -> List[tuple]:
        return self._m(("SO", env, n), lambda: self._SO(env, n))

    def SN(self, env, n) -> List[tuple]:
        return self._m(("SN", env, n), lambda: self._SN(env, n))

    def SSN(self, env, n) -> List[tuple]:
        return self._m(("SSN", env, n), lambda: self._SSN(env, n))

    def _V(self, env, n):
        c = self.cfg
        if n == 0:
            yield T(self.num_leaf(env))
            return
        m = n - 1
        # binary arithmetic
        for a in range(m + 1):
            for l in self.V(env, a):
                for r in self.V(env, m - a):
                    yield T("(", l, " ", Slot(["+", "-", "*", "/"], "binop"), " ", r, ")")
        # unary minus, function
        for v in self.V(env, m):
            yield T("(-", v, ")")
            if c.fn:
                yield T("abs(", v, ")")
        # conditional
        if c.ifexp:
            for a in range(m + 1):
                for b in range(m - a + 1):
                    for t in self.V(env, a):
                        for cnd in self.B(env, b):
                            for f in self.V(env, m - a - b):
                                yield T("(", t, " if ", cnd, " else ", f, ")")
        # aggregates
        for s in self.SO(env, m):
            yield T(s, ".Count()")
        for s in self.SN(env, m):
            yield T(s, ".Count()")
            yield T(s, ".Sum()")
            if c.minmax:
                yield T(s, ".", Slot(["Max", "Min"], "minmax"), "()")
            yield T(s, ".Aggregate(0, lambda acc, v: acc + v)")
            if c.partial:
                yield T(s, ".First()")
        if c.partial:
            for s in self.SO(env, m):
                yield T(s, ".First().", Slot(["pt", "nTrk", "eta"], "meth"), "()")
            if m == 0:
                if self.coll(env) is not None:
                    yield T(self.coll(env), "[", Slot(["0", "1"], "idx"), "].", Slot(["pt", "nTrk"], "meth"), "()")
                j = self._innermost(env, "obj")
                if j is not None:
                    yield T(f"{j}.tags()[", Slot(["0", "1"], "idx"), "]")

    def _B(self, env, n):
        c = self.cfg
        if n == 0:
            yield T(self.bool_leaf(env))
            return
        m = n - 1
        if c.boolops:
            for a in range(m + 1):
                for l in self.B(env, a):
                    for r in self.B(env, m - a):
                        yield T("(", l, " ", Slot(["and", "or"], "boolop"), " ", r, ")")
            for b in self.B(env, m):
                yield T("(not ", b, ")")
        # comparison of computed values
        if m >= 1:
            for v in self.V(env, m):
                yield T("(", v, " ", Slot([">", "==", "<="], "cmp"), " ", Slot(["1", "0", "2.5"], "const"), ")")

    def _SO(self, env, n):
        c = self.cfg
        if n == 0:
            if self.coll(env) is not None:
                yield T(self.coll(env))
            j = self._innermost(env, "obj")
            if j is not None and c.parts:
                yield T(f"{j}.parts()")
            for nm, t in env:
                if t == "seqobj":
                    yield T(nm)
            return
        m = n - 1
        v = self.var(env)
        env2 = env + ((v, "obj"),)
        for a in range(m + 1):
            for s in self.SO(env, a):
                for b in self.B(env2, m - a):
                    yield T(s, f".Where(lambda {v}: ", b, ")")
        if c.parts:
            for s in self.SO(env, m):
                yield T(s, f".SelectMany(lambda {v}: {v}.parts())")

    def _SN(self, env, n):
        c = self.cfg
        if n == 0:
            j = self._innermost(env, "obj")
            if j is not None:
                yield T(f"{j}.tags()")
            return
        m = n - 1
        v = self.var(env)
        envo = env + ((v, "obj"),)
        envn = env + ((v, "num"),)
        for a in range(m + 1):
            for s in self.SO(env, a):
                for val in self.V(envo, m - a):
                    yield T(s, f".Select(lambda {v}: ", val, ")")
                for sn in self.SN(envo, m - a):
                    yield T(s, f".SelectMany(lambda {v}: ", sn, ")")
            for s in self.SN(env, a):
                for val in self.V(envn, m - a):
                    yield T(s, f".Select(lambda {v}: ", val, ")")
                for b in self.B(envn, m - a):
                    yield T(s, f".Where(lambda {v}: ", b, ")")
        if c.ranges:
            # integer bounds only: a literal, an int-valued method, or a count
            j = self._innermost(env, "obj")
            if m == 0:
                hi = ["2", "3", "0"] + ([f"{j}.nTrk()"] if j is not None else [])
                yield T("Range(", Slot(["0", "1"], "rlo"), ", ", Slot(hi, "rhi"), ")")
            else:
                for s in self.SO(env, m - 1):
                    yield T("Range(", Slot(["0", "1"], "rlo"), ", ", s, ".Count())")

    def _SSN(self, env, n):
        if n == 0:
            return
        m = n - 1
        v = self.var(env)
        envo = env + ((v, "obj"),)
        for a in range(m + 1):
            for s in self.SO(env, a):
                for sn in self.SN(envo, m - a):
                    yield T(s, f".Select(lambda {v}: ", sn, ")")

    def Out(self, env, n) -> List[tuple]:
        return self._m(("Out", env, n), lambda: self._Out(env, n))

    def _Out1(self, env, n):
        yield from self.V(env, n)
        yield from self.SN(env, n)
        if self.cfg.seq2:
            yield from self.SSN(env, n)

    def _Out(self, env, n):
        yield from self._Out1(env, n)
        if self.cfg.tuples and n >= 1:
            m = n - 1
            for a in range(m + 1):
                for l in self._Out1(env, a):
                    for r in self._Out1(env, m - a):
                        yield T("(", l, ", ", r, ")")
                        if self.cfg.dicts:
                            yield T("{'a': ", l, ", 'b': ", r, "}")

    def evseq(self, n) -> List[tuple]:
        "ds followed by event-level Where filters using exactly n operators"
        return self._m(("EV", n), lambda: self._evseq(n))

    def _evseq(self, n):
        if n == 0:
            yield T("ds")
            return
        if not self.cfg.ev_where:
            return
        m = n - 1
        env = (("e", "ev"),)
        for a in range(m + 1):
            for s in self.evseq(a):
                for b in self.B(env, m - a):
                    yield T(s, ".Where(lambda e: ", b, ")")

    def queries(self, n) -> Iterator[tuple]:
        "Complete queries with exactly n operators (n >= 1)."
        env = (("e", "ev"),)
        m = n - 1
        for a in range(m + 1):
            for src in self.evseq(a):
                # rows per event
                for o in self.Out(env, m - a):
                    yield T(src, ".Select(lambda e: ", o, ")")
                # rows per element of a numeric sequence
                for sn in self.SN(env, m - a):
                    yield T(src, ".SelectMany(lambda e: ", sn, ")")
                # rows per object, then a per-object output
                if m - a >= 1:
                    k = m - a - 1
                    for b in range(k + 1):
                        for so in self.SO(env, b):
                            envj = (("j1", "obj"),)
                            for o in self.Out(envj, k - b):
                                yield T(src, ".SelectMany(lambda e: ", so, ").Select(lambda j1: ", o, ")")
                    # two-step at event level: a sequence variable
                    if self.cfg.two_step:
                        for b in range(k + 1):
                            for so in self.SO(env, b):
                                envs = (("js", "seqobj"),)
                                for o in self.Out(envs, k - b):
                                    if "js" in render(o):
                                        yield T(src, ".Select(lambda e: ", so, ").Select(lambda js: ", o, ")")


def count_ops(text: str) -> int:
    return sum(text.count(k) for k in (".Select(", ".Where(", ".SelectMany(", ".Count()", ".Sum()", ".Max()", ".Min()", ".First()", ".Aggregate(", "Range("))
