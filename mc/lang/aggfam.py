"""Explicit-Aggregate family: Aggregate(init, lambda acc, v: body) where the initial value and the update lambda are NOT the
shortcuts func_adl generates for Count/Sum/Min/Max: initial values computed at event level or taken from an enclosing
loop, update lambdas that close over enclosing variables, branch, compare, or call methods - over plain, filtered,
nested and flattened sequences, at event level, per object and per stream element.

The typed grammar of qgen only contains `.Aggregate(0, lambda acc, v: acc + v)`; the operator table of C13 varies the
arithmetic; this family varies WHERE the pieces live (scope of the initial value, of the closed-over variables and of the
accumulator) exhaustively for two nested loops.
"""
import itertools

from mc.lang import qgen


def in_seqs_early(A, B):
    return {"tags": "j.tags()", "parts-pt": "j.parts().Select(lambda p: p.pt())", "other-coll": f"{B}.Select(lambda k: k.pt())"}


def queries(backend):
    a = qgen.ALPHA[backend]
    A = f"e.{a.primary}('A')"
    B = f"e.{a.secondary}('B')"
    out = []
    # ---- event level: sequence of numbers built from collection A (and B)
    ev_seqs = {
        "pts": f"{A}.Select(lambda j: j.pt())",
        "pts-where": f"{A}.Where(lambda j: j.pt() > 1).Select(lambda j: j.pt())",
        "ntrk": f"{A}.Select(lambda j: j.nTrk())",
        "tags-flat": f"{A}.SelectMany(lambda j: j.tags())",
        "parts-flat": f"{A}.SelectMany(lambda j: j.parts()).Select(lambda p: p.pt())",
        "objects": None,          # the sequence elements are objects: the lambda calls a method on v
    }
    ev_inits = ["0", "0.5", "1", f"{B}.Count()", f"{A}.Count()", f"{B}.Select(lambda k: k.pt()).Sum()"]
    bodies = ["acc + v", "acc + 1", "acc * 2 + v", "(acc if acc > v else v)", "acc + (1 if v > 1 else 0)", "v", "acc + v * v", "acc - v",
              f"acc + v * {B}.Count()", "(acc + v if v > 1 else acc)"]
    for (sn, seq), init, body in itertools.product(ev_seqs.items(), ev_inits, bodies):
        if seq is None:
            seq = A
            body = body.replace("v", "v.pt()")
        out.append((f"ev:{sn}", f"ds.Select(lambda e: {seq}.Aggregate({init}, lambda acc, v: {body}))"))
        if init in ("0", f"{B}.Count()") and body in ("acc + v", "(acc if acc > v else v)", "acc + (1 if v > 1 else 0)"):
            out.append((f"ev-tuple:{sn}", f"ds.Select(lambda e: ({A}.Count(), {seq}.Aggregate({init}, lambda acc, v: {body})))"))
            out.append((f"ev-arith:{sn}", f"ds.Select(lambda e: {seq}.Aggregate({init}, lambda acc, v: {body}) * 2 + 1)"))
            out.append((f"ev-where:{sn}", f"ds.Where(lambda e: {seq}.Aggregate({init}, lambda acc, v: {body}) > 1).Select(lambda e: {A}.Count())"))
    # ---- compound computed seeds: an EXPRESSION over the result of another loop (not a bare variable, not a literal)
    seeds = [f"{B}.Count() + 1", f"-{B}.Count()", f"{B}.Select(lambda k: k.pt()).Sum() * 2", f"{B}.Count() + {A}.Count()", f"(1 if {B}.Count() > 0 else 2)",
             f"abs({B}.Count() - 3)", f"{B}.Count() / 2", "-1", "-0.5", "1 + 2",
             # expressions over a value that lives in a variable declared WITHOUT initializer (conditional, and/or, function result)
             f"0.5 * (30 if {B}.Count() > 0 else 10)", f"2 * ({B}.Count() if {A}.Count() > 1 else 1)", f"-abs({B}.Count() - 3)",
             f"(1 if ({B}.Count() > 0 and {A}.Count() > 0) else 0) + 1"]
    for (sn, seq), init, body in itertools.product(ev_seqs.items(), seeds, ["acc + v", "(acc if acc > v else v)", "v", "acc + 1"]):
        if sn in ("ntrk", "parts-flat"):
            continue
        if seq is None:
            seq = A
            body = body.replace("v", "v.pt()")
        out.append((f"ev-seed:{sn}", f"ds.Select(lambda e: {seq}.Aggregate({init}, lambda acc, v: {body}))"))
        if body == "acc + v":
            out.append((f"ev-seed:{sn}", f"ds.Select(lambda e: ({seq}.Aggregate({init}, lambda acc, v: {body}), {B}.Count()))"))
    # ---- the total of a seeded aggregate CONSUMED by something that takes its place from where the translator currently stands
    # (a comparison, an event filter, a function, a conditional's test): the accumulator is read where it is still in scope
    for (sn, seq), init in itertools.product(list(ev_seqs.items())[:2], ["-1", f"{B}.Count()", f"{B}.Count() + 1", "-0.5"]):
        agg = f"{seq}.Aggregate({init}, lambda acc, v: acc + v)"
        out.append((f"ev-seed-use:{sn}", f"ds.Select(lambda e: {agg} > 2)"))
        out.append((f"ev-seed-use:{sn}", f"ds.Where(lambda e: {agg} > 1).Select(lambda e: {A}.Count())"))
        out.append((f"ev-seed-use:{sn}", f"ds.Select(lambda e: abs({agg}))"))
        out.append((f"ev-seed-use:{sn}", f"ds.Select(lambda e: (1 if {agg} > 2 else 0))"))
        out.append((f"ev-seed-use:{sn}", f"ds.Select(lambda e: ({agg} > 2, {A}.Count()))"))
        out.append((f"ev-seed-use:{sn}", f"ds.Select(lambda e: {A}.Where(lambda j: j.pt() < {agg}).Count())"))
    for (sn, seq), init in itertools.product(in_seqs_early(A, B).items(), ["j.pt() + 1", f"{B}.Count() + j.nTrk()", "j.tags().Count() * 2", "-j.pt()", f"{B}.Count() + 1"]):
        agg = f"{seq}.Aggregate({init}, lambda acc, v: acc + v)"
        out.append((f"obj-seed:{sn}", f"ds.Select(lambda e: {A}.Select(lambda j: {agg}))"))
        out.append((f"obj-seed:{sn}", f"ds.SelectMany(lambda e: {A}).Select(lambda j: {agg})"))
    # ---- per object: the aggregate runs inside the loop over j; initial value / closure from j, from e, from another loop
    in_seqs = {
        "tags": "j.tags()",
        "parts-pt": "j.parts().Select(lambda p: p.pt())",
        "parts-where": "j.parts().Where(lambda p: p.pt() > 0.5).Select(lambda p: p.pt())",
        "other-coll": f"{B}.Select(lambda k: k.pt())",
        "other-coll-where-outer": f"{B}.Where(lambda k: k.pt() > j.pt()).Select(lambda k: k.pt())",
    }
    in_inits = ["0", "0.5", "j.pt()", "j.nTrk()", f"{B}.Count()", "j.tags().Count()"]
    in_bodies = ["acc + v", "acc + v * j.pt()", "(acc if acc > v else v)", "acc + (1 if v > j.eta() else 0)", "acc + j.nTrk()", "v", "j.echoD(acc) + v", "acc + j.add2(v, 1)"]
    for (sn, seq), init, body in itertools.product(in_seqs.items(), in_inits, in_bodies):
        agg = f"{seq}.Aggregate({init}, lambda acc, v: {body})"
        out.append((f"obj:{sn}", f"ds.Select(lambda e: {A}.Select(lambda j: {agg}))"))
        if init in ("0", "j.pt()") and body in ("acc + v", "acc + v * j.pt()", "(acc if acc > v else v)"):
            out.append((f"obj-stream:{sn}", f"ds.SelectMany(lambda e: {A}).Select(lambda j: {agg})"))
            out.append((f"obj-where:{sn}", f"ds.Select(lambda e: {A}.Where(lambda j: {agg} > 1).Count())"))
            out.append((f"obj-sum:{sn}", f"ds.Select(lambda e: {A}.Select(lambda j: {agg}).Sum())"))
            out.append((f"obj-tuple:{sn}", f"ds.SelectMany(lambda e: {A}).Select(lambda j: (j.pt(), {agg}))"))
            out.append((f"obj-nested-agg:{sn}", f"ds.Select(lambda e: {A}.Select(lambda j: {agg}).Aggregate(0, lambda a2, w: a2 + w))"))
    # ---- Count (the only aggregate that does not look at the element) over a sequence whose elements are sequences
    inner = ["j.tags().Select(lambda t: t * 2)", "j.parts().Where(lambda p: p.pt() > 1)", "j.parts().Select(lambda p: p.pt())", "j.tags().Where(lambda t: t > 0.5)",
             f"{B}.Select(lambda k: k.pt() + j.pt())", "j.parts().SelectMany(lambda p: p.tags())", "Range(0, j.nTrk())"]
    for i_ in inner:
        for outer in (A, f"{A}.Where(lambda j: j.pt() > 1)"):
            s2 = f"{outer}.Select(lambda j: {i_})"
            out.append(("count-2d", f"ds.Select(lambda e: {s2}.Count())"))
            out.append(("count-2d", f"ds.Select(lambda e: ({s2}.Count(), {A}.Select(lambda j: j.pt())))"))
            out.append(("count-2d", f"ds.Select(lambda e: {s2}.Count() + 1)"))
            out.append(("count-2d", f"ds.Select(lambda e: {s2}.Aggregate(0, lambda acc, v: acc + 2))"))
            out.append(("count-2d", f"ds.Where(lambda e: {s2}.Count() > 1).Select(lambda e: {A}.Count())"))
    for i_ in ["p.tags().Select(lambda t: t * 2)", "p.parts().Where(lambda r: r.pt() > 1)", "p.tags().Where(lambda t: t > j.eta())"]:
        s3 = f"j.parts().Select(lambda p: {i_})"
        out.append(("count-3d", f"ds.Select(lambda e: {A}.Select(lambda j: {s3}.Count()))"))
        out.append(("count-3d", f"ds.SelectMany(lambda e: {A}).Select(lambda j: {s3}.Count())"))
        out.append(("count-3d", f"ds.Select(lambda e: {A}.Select(lambda j: {s3}.Count()).Sum())"))
    seen = set()
    res = []
    for ctx, q in out:
        if q not in seen:
            seen.add(q)
            res.append((ctx, q))
    return res
