"""Argument-scope family: calls that take arguments (member calls with one or two arguments, C++ functions, nested
calls) where the receiver and the arguments live at DIFFERENT loop depths, placed under every consumer that decides
where a statement is emitted (aggregate, filter, first, 2-D column, flattening, conditional).

The typed grammar of qgen only has argument-less member calls; this family closes that gap exhaustively for two
nested loops: every (receiver, argument) choice over the variables in scope x every consumer.  Variables: j iterates
the primary collection 'A' (outer loop), k iterates the secondary collection 'B' or j.parts() (inner loop).
"""
import itertools

from mc.lang import qgen


VMTWICE_MD = {"metadata_type": "add_cpp_function", "name": "vmtwice", "include_files": [], "arguments": ["x"], "code": ["double result = x * 2;"], "return_type": "double"}


def extra_metadata(query_text):
    "metadata a query of this family must carry in addition to the method declarations"
    return (VMTWICE_MD,) if "vmtwice(" in query_text else ()


def calls():
    "call expressions over j (outer) and k (inner); each mentions an argument-taking call"
    recv = ["j", "k"]
    arg = ["j.pt()", "k.pt()", "(j.pt() + k.pt())", "1.5", "k.nTrk()"]
    out = []
    for r, a in itertools.product(recv, arg):
        out.append(f"{r}.echoD({a})")
    for r, a, b in itertools.product(recv, ["j.pt()", "k.pt()"], ["j.eta()", "k.eta()", "2"]):
        out.append(f"{r}.add2({a}, {b})")
    out += ["j.echoD(k.echoD(j.pt()))", "k.echoD(j.echoD(k.pt()))", "j.echoD(k.echoD(k.pt()))",
            "sin(k.pt()) + j.pt()", "j.echoD(sin(k.pt()))", "k.echoD(abs(j.eta()))",
            "DeltaR(j.eta(), j.phi(), k.eta(), k.phi())", "j.add2(k.echoD(j.pt()), j.echoD(k.eta()))",
            # an injected C++ function (its result is computed by inserted statements, not an expression)
            "vmtwice(k.pt()) + j.pt()", "j.echoD(vmtwice(k.pt()))", "vmtwice(j.pt()) + k.pt()", "k.add2(vmtwice(j.pt()), vmtwice(k.eta()))",
            "vmtwice(j.echoD(k.pt()))"]
    return out


def queries(backend, exprs=None):
    "exprs: the expressions over j (outer loop variable) and k (inner) to place; default: calls()"
    exprs = exprs if exprs is not None else calls()
    a = qgen.ALPHA[backend]
    A = f"e.{a.primary}('A')"
    B = f"e.{a.secondary}('B')"
    out = []
    for x in exprs:
        for inner in (B, "j.parts()"):
            I = f"{inner}"
            out += [
                ("sum", f"ds.Select(lambda e: {A}.Select(lambda j: {I}.Select(lambda k: {x}).Sum()))"),
                ("max", f"ds.Select(lambda e: {A}.Select(lambda j: {I}.Select(lambda k: {x}).Max()))"),
                ("count-where", f"ds.Select(lambda e: {A}.Select(lambda j: {I}.Where(lambda k: {x} > 1).Count()))"),
                ("first", f"ds.Select(lambda e: {A}.Select(lambda j: {I}.Select(lambda k: {x}).First()))"),
                ("column-2d", f"ds.Select(lambda e: {A}.Select(lambda j: {I}.Select(lambda k: {x})))"),
                ("flatten", f"ds.Select(lambda e: {A}.SelectMany(lambda j: {I}.Select(lambda k: {x})))"),
                ("ifexp", f"ds.Select(lambda e: {A}.Select(lambda j: {I}.Select(lambda k: ({x}) if {x} > 1 else k.eta()).Sum()))"),
                ("where-then-value", f"ds.Select(lambda e: {A}.SelectMany(lambda j: {I}.Where(lambda k: {x} > 1).Select(lambda k: k.pt())))"),
            ]
        # receiver found by First() at event level, argument in a loop; and the reverse
        xf = x.replace("j.", f"{A}.First().")
        out += [("first-receiver", f"ds.Select(lambda e: {B}.Select(lambda k: {xf}))"),
                ("first-receiver-sum", f"ds.Select(lambda e: {B}.Select(lambda k: {xf}).Sum())")]
    # per-object stream: j is the stream element
    for x in exprs:
        out += [("stream-sum", f"ds.SelectMany(lambda e: {A}).Select(lambda j: j.parts().Select(lambda k: {x}).Sum())"),
                ("stream-tuple", f"ds.SelectMany(lambda e: {A}).Select(lambda j: (j.pt(), j.parts().Select(lambda k: {x}).Sum()))")]
    seen = set()
    res = []
    for ctx, q in out:
        if q not in seen:
            seen.add(q)
            res.append((ctx, q))
    return res
