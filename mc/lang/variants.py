"""Semantics-preserving query variants for C08: qastle round trip, alpha-renamings (incl. legal shadowing),
MetaData placement, fused vs separate Select/Where chains.  All work on Python ASTs of the query text."""
import ast
import copy
import itertools
from typing import Dict, Iterator, List, Tuple

SEQ = {"Select", "Where", "SelectMany"}


# ------------------------------------------------------------------ alpha renaming
def _lambdas(tree) -> List[ast.Lambda]:
    return [n for n in ast.walk(tree) if isinstance(n, ast.Lambda)]


def _binder_map(tree):
    """For every Name load in the tree: which (lambda, arg index) binds it (None = free)."""
    res = {}

    def walk(node, env):
        if isinstance(node, ast.Lambda):
            env2 = dict(env)
            for i, a in enumerate(node.args.args):
                env2[a.arg] = (id(node), i)
            walk(node.body, env2)
            return
        if isinstance(node, ast.Name):
            res[id(node)] = env.get(node.id)
            return
        for c in ast.iter_child_nodes(node):
            walk(c, env)
    walk(tree, {})
    return res


def alpha_variants(tree: ast.AST, pool=("e", "j", "x")) -> Iterator[Tuple[str, Dict]]:
    """Every assignment of names from `pool` to the lambda parameters that keeps every reference bound to the same
    binder (so inner parameters may shadow outer ones whenever the inner body does not use the outer)."""
    lams = _lambdas(tree)
    params = [(l, i) for l in lams for i in range(len(l.args.args))]
    orig_b = _binder_map(tree)
    for assign in itertools.product(pool, repeat=len(params)):
        # parameters of one lambda must be distinct
        ok = True
        per = {}
        for (l, i), nm in zip(params, assign):
            per.setdefault(id(l), []).append(nm)
        if any(len(set(v)) != len(v) for v in per.values()):
            continue
        t2 = copy.deepcopy(tree)
        lams2 = _lambdas(t2)
        idmap = {id(a): id(b) for a, b in zip(lams, lams2)}
        newname = {(idmap[id(l)], i): nm for (l, i), nm in zip(params, assign)}
        # rename binders and references according to the ORIGINAL binding structure
        ob2 = _binder_map(t2)
        names2 = [n for n in ast.walk(t2) if isinstance(n, ast.Name)]
        for n in names2:
            b = ob2.get(id(n))
            if b is not None:
                n.id = newname[b]
        for l in lams2:
            for i, a in enumerate(l.args.args):
                a.arg = newname[(id(l), i)]
        # valid iff the binding structure is unchanged after renaming
        nb = _binder_map(t2)
        for n in names2:
            if nb.get(id(n)) != ob2.get(id(n)):
                ok = False
                break
        if ok:
            yield ast.unparse(t2), {"names": assign}


# ------------------------------------------------------------------ metadata placement
def _top_chain(tree):
    "Nodes of the top-level chain, outermost first: each is a Call whose func is Attribute on the next."
    chain = []
    n = tree
    while isinstance(n, ast.Call) and isinstance(n.func, ast.Attribute):
        chain.append(n)
        n = n.func.value
    return chain, n


def metadata_variants(tree: ast.AST, mds: List[dict]) -> Iterator[Tuple[str, Dict]]:
    """The query is given WITHOUT metadata (dataset = Name ds); yield it with the MetaData calls attached at each
    position of the top-level chain and around the first collection expression inside the first lambda."""
    def wrap(expr):
        cur = expr
        for md in mds:
            cur = ast.Call(func=ast.Name("MetaData", ast.Load()), args=[cur, ast.parse(repr(md), mode="eval").body], keywords=[])
        return cur
    chain, root = _top_chain(tree)
    # position 0: directly on the dataset; position k: around the k-th call of the chain (counted from the dataset)
    npos = len(chain) + 1
    for pos in range(npos):
        t2 = copy.deepcopy(tree)
        chain2, root2 = _top_chain(t2)
        if pos == 0:
            target_parent = chain2[-1] if chain2 else None
            if target_parent is None:
                continue
            target_parent.func.value = wrap(root2)
            yield ast.unparse(t2), {"md_position": 0}
        else:
            idx = len(chain2) - pos      # chain2 is outermost first
            node = chain2[idx]
            if idx == 0:
                yield ast.unparse(wrap(t2)), {"md_position": pos}
            else:
                chain2[idx - 1].func.value = wrap(node)
                yield ast.unparse(t2), {"md_position": pos}
    # nested: around the first e.<Collection>('bank') call inside a lambda
    t2 = copy.deepcopy(tree)
    done = [False]

    class W(ast.NodeTransformer):
        def visit_Call(self, n):
            self.generic_visit(n)
            if not done[0] and isinstance(n.func, ast.Attribute) and isinstance(n.func.value, ast.Name) and n.func.value.id != "ds" \
                    and len(n.args) == 1 and isinstance(n.args[0], ast.Constant) and isinstance(n.args[0].value, str):
                done[0] = True
                return wrap(n)
            return n
    t3 = ast.fix_missing_locations(W().visit(t2))
    if done[0]:
        yield ast.unparse(t3), {"md_position": "nested"}


# ------------------------------------------------------------------ fusion of adjacent Select.Select / Where.Where
class _Subst(ast.NodeTransformer):
    def __init__(self, name, repl):
        self.name, self.repl = name, repl

    def visit_Lambda(self, n):
        if any(a.arg == self.name for a in n.args.args):
            return n      # shadowed
        return self.generic_visit(n)

    def visit_Name(self, n):
        if n.id == self.name:
            return copy.deepcopy(self.repl)
        return n


def _free_names(node) -> set:
    b = _binder_map(node)
    return {n.id for n in ast.walk(node) if isinstance(n, ast.Name) and b.get(id(n)) is None}


def fusion_variants(tree: ast.AST) -> Iterator[Tuple[str, Dict]]:
    """For every adjacent pair X.Select(lambda a: A).Select(lambda b: B) yield the fused form X.Select(lambda a: B[b:=A]);
    for X.Where(lambda a: A).Where(lambda b: B) yield X.Where(lambda a: A and B[b:=a])."""
    cands = []
    for n in ast.walk(tree):
        if isinstance(n, ast.Call) and isinstance(n.func, ast.Attribute) and n.func.attr in ("Select", "Where") and len(n.args) == 1 \
                and isinstance(n.args[0], ast.Lambda):
            inner = n.func.value
            if isinstance(inner, ast.Call) and isinstance(inner.func, ast.Attribute) and inner.func.attr == n.func.attr \
                    and len(inner.args) == 1 and isinstance(inner.args[0], ast.Lambda):
                cands.append(n)
    for k in range(len(cands)):
        t2 = copy.deepcopy(tree)
        c2 = []
        for n in ast.walk(t2):
            if isinstance(n, ast.Call) and isinstance(n.func, ast.Attribute) and n.func.attr in ("Select", "Where") and len(n.args) == 1 \
                    and isinstance(n.args[0], ast.Lambda):
                inner = n.func.value
                if isinstance(inner, ast.Call) and isinstance(inner.func, ast.Attribute) and inner.func.attr == n.func.attr \
                        and len(inner.args) == 1 and isinstance(inner.args[0], ast.Lambda):
                    c2.append(n)
        outer = c2[k]
        inner = outer.func.value
        la, lb = inner.args[0], outer.args[0]
        a, b = la.args.args[0].arg, lb.args.args[0].arg
        # capture check: B's free names (other than b) must not be bound by `a` after substitution
        if a in (_free_names(lb.body) - {b}):
            continue
        nuses = sum(1 for x in ast.walk(lb.body) if isinstance(x, ast.Name) and x.id == b)
        if outer.func.attr == "Select" and nuses != 1 and not isinstance(la.body, ast.Name):
            # duplicating A would make the user-written fused form mention a collection twice: not "the same query"
            continue
        if outer.func.attr == "Select":
            # substituting A for b must not capture A's free names under lambdas inside B
            newbody = _Subst(b, la.body).visit(copy.deepcopy(lb.body))
        else:
            newbody = ast.BoolOp(op=ast.And(), values=[copy.deepcopy(la.body), _Subst(b, ast.Name(a, ast.Load())).visit(copy.deepcopy(lb.body))])
        outer.func.value = inner.func.value
        outer.args[0] = ast.Lambda(args=la.args, body=newbody)
        yield ast.unparse(ast.fix_missing_locations(t2)), {"fused": outer.func.attr, "site": k}


# ------------------------------------------------------------------ the same query as a DAG: equal sub-expressions are ONE node object
def share_equal_subtrees(tree: ast.AST):
    """Returns (tree', number of re-uses): every group of structurally equal expression sub-trees is replaced by one shared
    node object (what a front end that builds queries from re-used pieces hands over).  The query text is unchanged."""
    table = {}
    hits = [0]

    class T(ast.NodeTransformer):
        def visit(self, node):
            node = self.generic_visit(node)
            if isinstance(node, ast.expr):
                key = ast.dump(node)
                if key in table:
                    if table[key] is not node:
                        hits[0] += 1
                    return table[key]
                table[key] = node
            return node
    return T().visit(tree), hits[0]
