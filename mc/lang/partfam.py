"""Two-partial-values family: two values that each exist only inside a block the translator has to open (First of a
sequence, of a filtered sequence, an indexed element, a First inside a First) combined in one expression or one row -
tuple columns, arithmetic, comparison, conditional - at event level and per object.  Where either sequence is empty
the query is undefined (loud failure expected); where both exist the value must be right.
"""
import itertools

from mc.lang import qgen


def queries(backend):
    a = qgen.ALPHA[backend]
    A = f"e.{a.primary}('A')"
    B = f"e.{a.secondary}('B')"
    ev = {
        "firstA": f"{A}.First().pt()",
        "firstB": f"{B}.First().pt()",
        "firstA-where": f"{A}.Where(lambda j: j.pt() > 1).First().eta()",
        "firstA-select": f"{A}.Select(lambda j: j.pt() * 2).First()",
        "indexA1": f"{A}[1].pt()",
        "first-first": f"{A}.First().parts().First().pt()",
        "first-tags-sum": f"{A}.First().tags().Sum()",
        "countB": f"{B}.Count()",
    }
    out = []
    for (n1, p1), (n2, p2) in itertools.permutations(ev.items(), 2):
        tag = f"{n1}+{n2}"
        out += [(f"ev-tuple:{tag}", f"ds.Select(lambda e: ({p1}, {p2}))"),
                (f"ev-sum:{tag}", f"ds.Select(lambda e: {p1} + {p2})"),
                (f"ev-compare:{tag}", f"ds.Select(lambda e: {p1} > {p2})"),
                (f"ev-ifexp:{tag}", f"ds.Select(lambda e: ({p1} if {p2} > 1 else -1))"),
                (f"ev-dict-vector:{tag}", f"ds.Select(lambda e: {{'a': {p1}, 'v': {B}.Select(lambda k: k.pt()), 'b': {p2}}})"),
                (f"ev-where:{tag}", f"ds.Where(lambda e: {p1} > {p2}).Select(lambda e: {A}.Count())")]
    el = {
        "parts-first": "j.parts().First().pt()",
        "tags-first": "j.tags().First()",
        "tags-index1": "j.tags()[1]",
        "parts-where-first": "j.parts().Where(lambda p: p.pt() > 0.5).First().eta()",
        "other-first": f"{B}.First().pt()",
        "tags-count": "j.tags().Count()",
    }
    for (n1, p1), (n2, p2) in itertools.permutations(el.items(), 2):
        tag = f"{n1}+{n2}"
        out += [(f"el-tuple:{tag}", f"ds.SelectMany(lambda e: {A}).Select(lambda j: ({p1}, {p2}))"),
                (f"el-sum:{tag}", f"ds.Select(lambda e: {A}.Select(lambda j: {p1} + {p2}))"),
                (f"el-ifexp:{tag}", f"ds.Select(lambda e: {A}.Select(lambda j: ({p1} if {p2} > 0.5 else -1)))"),
                (f"el-where-count:{tag}", f"ds.Select(lambda e: {A}.Where(lambda j: {p1} > {p2}).Count())"),
                (f"el-agg:{tag}", f"ds.Select(lambda e: {A}.Select(lambda j: {p1} * {p2}).Sum())")]
    seen = set()
    res = []
    for ctx, q in out:
        if q not in seen:
            seen.add(q)
            res.append((ctx, q))
    return res
