"""Mixed-scope expression family: every expression form of the supported fragment (arithmetic, comparison, and / or /
not, conditional with the foreign variable in its test or in either arm, unary minus, functions, and aggregates /
First / link over a sequence that belongs to the OUTER variable) combining an outer loop variable j with an inner loop
variable k, placed under the consumers of mc.lang.argscope (aggregate, filter, first, 2-D column, flattening, conditional).
"""
from mc.lang import argscope


def exprs():
    return [
        "j.pt() + k.pt()", "k.pt() - j.pt()", "j.pt() * k.nTrk()", "j.pt() / (k.pt() + 4)",
        "(1 if j.pt() > k.pt() else 0)", "(j.pt() if k.pt() > 1 else k.eta())", "(k.pt() if j.pt() > 1 else j.eta())", "(j.pt() if j.eta() > 1 else k.pt())",
        "(1 if (j.pt() > 1 and k.pt() > 1) else 0)", "(1 if (k.pt() > 1 or j.pt() > 1) else 0)", "(1 if not (j.pt() > k.pt()) else 0)",
        "(1 if (j.pt() > 1 and (k.pt() > 1 or j.eta() > k.eta())) else 0)",
        "(-j.pt()) + k.pt()", "abs(j.pt() - k.pt())", "sqrt(abs(j.pt() * k.pt()))",
        # aggregates / partial operations over a sequence that belongs to the OUTER variable, evaluated inside the inner loop
        "j.tags().Count() + k.pt()", "k.tags().Count() * j.pt()", "j.tags().Sum() + k.pt()", "k.tags().Sum() + j.pt()",
        "j.parts().Count() + k.nTrk()", "j.tags().Where(lambda t: t > k.pt()).Count()", "k.tags().Where(lambda t: t > j.pt()).Count()",
        "j.tags().Select(lambda t: t + k.pt()).Sum()", "j.parts().Select(lambda p: p.pt() * k.pt()).Sum()",
        "(j.tags().First() + k.pt() if j.tags().Count() > 0 else k.pt())", "(k.tags().First() + j.pt() if k.tags().Count() > 0 else j.pt())",
        "j.tags().Max() + k.pt()", "j.tags().Aggregate(k.pt(), lambda acc, t: acc + t)", "k.tags().Aggregate(j.pt(), lambda acc, t: acc + t)",
    ]


def atlas_exprs():
    "the jet plug-in methods are injected C++ with a method object: their result is computed by inserted statements"
    return ["j.getAttributeFloat('w') + k.pt()", "j.getAttributeFloat('w') * k.echoD(j.getAttributeFloat('w'))",
            "j.getAttributeVectorFloat('v').Count() + k.pt()", "j.getAttributeVectorFloat('v').Sum() + k.pt()",
            "j.getAttributeVectorFloat('v').Select(lambda t: t * k.pt()).Sum()", "k.echoD(j.getAttributeFloat('w')) + j.echoD(k.pt())"]


def queries(backend):
    return argscope.queries(backend, exprs() + (atlas_exprs() if backend == "atlas" else []))
