"""First() of a sequence whose ELEMENTS are sequences (raw collections of an object, projected or filtered ones), under
every consumer of the sequence that First() hands back."""
from mc.lang import qgen


def queries(backend):
    a = qgen.ALPHA[backend]
    A = f"e.{a.primary}('A')"
    inner = {"tags-proj": "j.tags().Select(lambda t: t * 2)", "tags-where": "j.tags().Where(lambda t: t > 0)", "parts-proj": "j.parts().Select(lambda p: p.pt())",
             "tags-raw": "j.tags()", "parts-raw": "j.parts()"}
    cons = {"sum": ".Sum()", "count": ".Count()", "select": ".Select(lambda v: v + 1)", "first": ".First()", "bare": ""}
    out = []
    for ik, i in inner.items():
        for ck, c in cons.items():
            if ik == "parts-raw" and ck in ("sum", "select", "first", "bare"):
                continue
            out.append((f"{ik}:{ck}", f"ds.Select(lambda e: {A}.Select(lambda j: {i}).First(){c})"))
            out.append((f"{ik}:{ck}:where", f"ds.Select(lambda e: {A}.Where(lambda j: j.pt() > 1).Select(lambda j: {i}).First(){c})"))
    return out
