"""Execute a rendered job configuration (ATestRun_eljob.py / analyzer_cfg.py), unmodified, against the stand-in job
frameworks in mc/standin/jobfw and report what the job would have processed and written."""
import os
import shutil
import subprocess
import sys
import tempfile
from pathlib import Path
from typing import Dict, List, Optional

JOBFW = Path(__file__).resolve().parents[1] / "standin" / "jobfw"
CFG = {"atlas": "ATestRun_eljob.py", "cms_aod": "analyzer_cfg.py", "cms_miniaod": "analyzer_cfg.py"}


def parse_trees(text: Optional[str]) -> List[Dict]:
    "All trees of a stand-in ROOT file: [{'dir', 'name', 'nonce', 'inputs', 'processed', 'total', 'algs'}]"
    out = []
    cur = None
    for l in (text or "").split("\n"):
        if l.startswith("BEGIN "):
            p = l.split()
            cur = {"cls": p[1], "dir": p[2], "name": p[3], "nonce": None, "inputs": [], "processed": None, "total": None, "algs": []}
        elif l == "END":
            if cur is not None and cur["cls"] == "TTree":
                out.append(cur)
            cur = None
        elif cur is not None:
            if l.startswith("NONCE "):
                cur["nonce"] = l[6:]
            elif l.startswith("INPUT "):
                cur["inputs"].append(l[6:])
            elif l.startswith("PROCESSED "):
                p = l.split()
                cur["processed"], cur["total"] = int(p[1]), int(p[3])
            elif l.startswith("ALG "):
                cur["algs"].append(l[4:])
    return out


def parse_output(text: Optional[str], directory: Optional[str] = None) -> Optional[Dict]:
    "The single tree of the file (in `directory`, default: anywhere), or None if there is not exactly one."
    if text is None:
        return None
    ts = [t for t in parse_trees(text) if directory is None or t["dir"] == directory]
    return ts[0] if len(ts) == 1 else None


def run_config(files: Dict[str, str], backend: str, event_counts: List[int], nonce="N0") -> Dict:
    """Run the package's job configuration on len(event_counts) input files holding that many events each.
    Returns {'rc', 'output': parsed output file or None, 'inputs_expected', 'stderr'}."""
    d = Path(tempfile.mkdtemp(prefix="vjob_"))
    try:
        ins = []
        for i, n in enumerate(event_counts):
            p = d / f"in{i}.root"
            p.write_text(f"EVENTS {n}\n")
            ins.append(str(p))
        (d / "filelist.txt").write_text("".join(f"{x}\n" for x in ins))
        cfg = d / CFG[backend]
        cfg.write_text(files[CFG[backend]])
        env = {"PATH": "/usr/bin:/bin", "VM_NONCE": nonce, "CMS_OUTPUT_FILE": "OUT.root", "PYTHONDONTWRITEBYTECODE": "1"}
        if backend == "atlas":
            cmd = [sys.executable, str(JOBFW / "jobrun.py"), "atlas", str(cfg), "--submission-dir=sub"]
            outp = d / "sub" / "data-ANALYSIS" / "ANALYSIS.root"
        else:
            cmd = [sys.executable, str(JOBFW / "jobrun.py"), "cms", str(cfg)]
            outp = d / "OUT.root"
        p = subprocess.run(cmd, cwd=d, env=env, capture_output=True, text=True, timeout=120)
        produced = sorted(str(x.relative_to(d)) for x in d.rglob("*.root") if not x.name.startswith("in"))
        return {"rc": p.returncode, "output": parse_output(outp.read_text() if outp.is_file() else None), "inputs_expected": ins,
                "produced": produced, "stderr": p.stderr[-600:]}
    finally:
        shutil.rmtree(d, ignore_errors=True)
