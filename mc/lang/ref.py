"""M2: reference LINQ runtime.  The query text is eval()-ed by CPython; lambdas are real Python lambdas.

Result of evaluating a query on one event:  ("rows", [row,...])  or  ("fault", kind).
A row is a list of column values (scalar | list | list of lists).
"""
import math
from typing import Any, Callable, List, Optional

from mc.edm.events import Event, Obj


class Fault(Exception):
    def __init__(self, kind):
        super().__init__(kind)
        self.kind = kind


class Unsupported(Exception):
    "The reference does not define this (harness limitation) - the case is skipped, never reported."


class Cfg:
    lazy = True          # LINQ deferred evaluation vs eager
    minmax = "strict"    # "strict" | "seed0"
    range_mode = "normal"   # "normal" | "empty" (known finding: bounds evaluated before they are computed)
    dead_elim = False    # Select(f).Count() does not evaluate f (length-preserving projection)
    c_int_div = False    # alternative semantics: int / int truncates (what C++ does when both operands are ints)


CFG = Cfg()


class Seq:
    def __init__(self, gen: Callable[[], Any], same_len_as=None, len_fn=None):
        self._gen = gen
        self._same_len_as = same_len_as
        self._len_fn = len_fn
        if not CFG.lazy:
            vals = list(gen())
            self._gen = lambda: iter(vals)

    def __iter__(self):
        return iter(self._gen())

    def _len_only(self):
        "Number of elements without evaluating length-preserving projections."
        if self._same_len_as is not None:
            return self._same_len_as._len_only()
        if self._len_fn is not None:
            return self._len_fn()
        return sum(1 for _ in self)

    def Select(self, f):
        if CFG.dead_elim and _ignores_its_argument(f):
            # a projection that ignores its element does not need the upstream projections evaluated
            return Seq(lambda: (f(None) for _ in range(self._len_only())), same_len_as=self)
        return Seq(lambda: (f(x) for x in self), same_len_as=self)

    def Where(self, f):
        def g():
            for x in self:
                r = f(x)
                if not isinstance(r, bool):
                    raise Unsupported("non-bool filter")
                if r:
                    yield x
        return Seq(g)

    def SelectMany(self, f):
        def g():
            for x in self:
                ys = f(x)
                if not isinstance(ys, Seq):
                    raise Unsupported("SelectMany of non-seq")
                for y in ys:
                    yield y

        def n():
            tot = 0
            for x in self:
                ys = f(x)
                if not isinstance(ys, Seq):
                    raise Unsupported("SelectMany of non-seq")
                tot += ys._len_only()
            return tot
        return Seq(g, len_fn=n)

    def Count(self):
        if CFG.dead_elim and (self._same_len_as is not None or self._len_fn is not None):
            return self._len_only()
        return sum(1 for _ in self)

    def Sum(self):
        acc = 0
        for v in self:
            acc = acc + v
        return acc

    def Max(self):
        vals = list(self)
        if CFG.minmax == "seed0":
            acc = 0
            for v in vals:
                acc = acc if acc > v else v
            return float(acc)
        if not vals:
            raise Fault("minmax-empty")
        return float(max(vals))

    def Min(self):
        vals = list(self)
        if CFG.minmax == "seed0":
            acc = 0
            for v in vals:
                acc = acc if acc < v else v
            return float(acc)
        if not vals:
            raise Fault("minmax-empty")
        return float(min(vals))

    def Aggregate(self, seed, f):
        acc = seed
        for v in self:
            acc = f(acc, v)
        return acc

    def First(self):
        for v in self:
            return v
        raise Fault("first-empty")

    def __getitem__(self, i):
        if isinstance(i, bool) or not isinstance(i, int):
            raise Unsupported("index")
        if i < 0:
            # Python counts from the end; past the beginning the query is undefined (a fault).  The generated code is
            # additionally allowed to fail loudly on ANY negative index (see classify_event(loud_ok=...)).
            items = list(self)
            if -i > len(items):
                raise Fault("index")
            return items[i]
        for k, v in enumerate(self):
            if k == i:
                return v
        raise Fault("index")


def _ignores_its_argument(f) -> bool:
    import dis
    try:
        code = f.__code__
    except AttributeError:
        return False
    if code.co_argcount != 1:
        return False
    arg = code.co_varnames[0]
    if arg in code.co_cellvars:
        return False
    return not any(i.argval == arg for i in dis.get_instructions(code) if i.opname.startswith("LOAD_FAST") or i.opname == "LOAD_DEREF")


def Range(a, b):
    if CFG.range_mode == "empty":
        return Seq(lambda: iter(()))
    return Seq(lambda: iter(range(int(a), int(b))))


class RLink:
    def __init__(self, target: Optional["RObj"]):
        self._t = target

    def __getattr__(self, name):
        if self._t is None:
            raise Fault("nullderef")
        return getattr(self._t, name)


def isNonnull(x):
    if not isinstance(x, RLink):
        raise Unsupported("isNonnull of non-link")
    return x._t is not None


class RObj:
    def __init__(self, o: Obj, log=None):
        self._o = o
        self._log = log

    m_pt = property(lambda self: self._o.pt)
    m_ntrk = property(lambda self: self._o.nTrk)
    m_q = property(lambda self: self._o.q)
    m_good = property(lambda self: self._o.good)

    def pt(self): return self._o.pt
    def eta(self): return self._o.eta
    def phi(self): return self._o.phi
    def y(self): return self._o.eta * 2 + 1
    def nTrk(self): return self._o.nTrk
    def q(self): return self._o.q
    def isGood(self): return self._o.good
    def isPFMuon(self): return self._o.good
    def isEB(self): return self._o.good
    def tags(self): return Seq(lambda: iter(self._o.tags))
    def parts(self): return Seq(lambda: (RObj(p, self._log) for p in self._o.parts))
    def link(self): return RLink(RObj(self._o.link, self._log) if self._o.link is not None else None)
    def globalTrack(self): return self.link()
    def gsfTrack(self): return self.link()
    def echoD(self, v): return float(v)
    def add2(self, a, b): return float(a) + float(b)
    def echoI(self, v): return v
    def echoL(self, v): return v
    def echoB(self, v): return v
    def runNumber(self): return 7

    def getAttributeFloat(self, name):
        if self._log is not None:
            self._log.append(("ATTR", name))
        return dict(self._o.attrs).get(name, 0.0)

    def getAttributeVectorFloat(self, name):
        if self._log is not None:
            self._log.append(("ATTR", name))
        return Seq(lambda: iter(self._o.tags))


SINGLETONS = {"EventInfo", "MyInfo"}


class REvent:
    def __init__(self, ev: Event, log: list, singletons=SINGLETONS):
        self._ev = ev
        self._log = log
        self._singletons = singletons

    def __getattr__(self, name):
        if name.startswith("_"):
            raise AttributeError(name)

        def fetch(bank):
            self._log.append(("REQ", name, bank))
            objs = self._ev.bank(bank)
            if objs is None:
                raise Fault("missing-bank")
            if name in self._singletons:
                if not objs:
                    raise Fault("missing-bank")
                return RObj(objs[0], self._log)
            return Seq(lambda: (RObj(o, self._log) for o in objs))
        return fetch


def _div_hook_env():
    return {}


def DeltaR(eta1, phi1, eta2, phi2):
    d_eta = eta1 - eta2
    d_phi = phi1 - phi2
    while d_phi >= math.pi:
        d_phi -= 2 * math.pi
    while d_phi < -math.pi:
        d_phi += 2 * math.pi
    return math.sqrt(d_eta * d_eta + d_phi * d_phi)


def base_env():
    env = {"_vm_mod": _vm_mod, "_vm_div": _vm_div, "vm_const": (lambda v: v), "Range": Range, "isNonnull": isNonnull, "DeltaR": DeltaR, "abs": abs, "pow": pow}
    for n in dir(math):
        if not n.startswith("_") and callable(getattr(math, n)):
            env[n] = getattr(math, n)
    env["ln"] = math.log
    env["_vm_dict"] = _AttrDict
    env["vmtwice"] = lambda x: x * 2       # twin of the injected C++ function mc.lang.argscope.VMTWICE_MD declares
    env["MetaData"] = lambda src, md: src
    env["ResultTTree"] = lambda src, names, tree, fname: src
    return env


def to_cols(elem):
    "One element of the outermost sequence -> list of column values."
    def val(v):
        if isinstance(v, Seq):
            return [val(x) for x in v]
        if isinstance(v, (RObj, RLink, REvent)):
            raise Unsupported("raw object as column")
        if isinstance(v, (tuple, list, dict)):
            raise Unsupported("nested structure inside a column")
        return v
    if isinstance(elem, dict):
        return [val(v) for v in elem.values()]
    if isinstance(elem, (tuple, list)):
        return [val(v) for v in elem]
    return [val(elem)]


_compiled = {}


class _ModGuard(__import__("ast").NodeTransformer):
    "a % b is only defined by the property for non-negative operands: route it through a guard; a / b through the division hook"

    def visit_BinOp(self, n):
        import ast
        self.generic_visit(n)
        if isinstance(n.op, ast.Mod):
            return ast.Call(func=ast.Name("_vm_mod", ast.Load()), args=[n.left, n.right], keywords=[])
        if isinstance(n.op, ast.Div):
            return ast.Call(func=ast.Name("_vm_div", ast.Load()), args=[n.left, n.right], keywords=[])
        return n


def _vm_div(a, b):
    if CFG.c_int_div and isinstance(a, int) and isinstance(b, int) and not isinstance(a, bool) and not isinstance(b, bool):
        if b == 0:
            raise ZeroDivisionError()
        q = abs(a) // abs(b)
        return q if (a >= 0) == (b >= 0) else -q
    return a / b


def _vm_mod(a, b):
    if isinstance(a, (int, float)) and isinstance(b, (int, float)) and (a < 0 or b < 0):
        raise Unsupported("% with a negative operand")
    return a % b


class _AttrDict(dict):
    "func_adl lets a dictionary built by one Select be read by attribute in the next (d.jets): same thing as d['jets']"

    def __getattr__(self, name):
        try:
            return self[name]
        except KeyError:
            raise AttributeError(name)


class _DictWrap(__import__("ast").NodeTransformer):
    def visit_Dict(self, n):
        import ast
        self.generic_visit(n)
        return ast.Call(func=ast.Name("_vm_dict", ast.Load()), args=[n], keywords=[])


def compile_query(text: str):
    c = _compiled.get(text)
    if c is None:
        import ast
        if "%" in text or "/" in text or "{" in text:
            tree = ast.parse(text, mode="eval")
            if "%" in text or "/" in text:
                tree = _ModGuard().visit(tree)
            if "{" in text:
                tree = _DictWrap().visit(tree)
            tree = ast.fix_missing_locations(tree)
            c = compile(tree, "<query>", "eval")
        else:
            c = compile(text, "<query>", "eval")
        if len(_compiled) > 20000:
            _compiled.clear()
        _compiled[text] = c
    return c


def evaluate(text: str, ev: Event, lazy=True, minmax="strict", range_mode="normal", extra_env=None, dead_elim=False, c_int_div=False):
    """Returns (outcome, log) with outcome = ("rows", rows) | ("fault", kind) | ("unsupported", why)."""
    CFG.lazy, CFG.minmax, CFG.range_mode, CFG.dead_elim, CFG.c_int_div = lazy, minmax, range_mode, dead_elim, c_int_div
    log: list = []
    env = base_env()
    if extra_env:
        env.update(extra_env)
    env["ds"] = Seq(lambda: iter([REvent(ev, log)]))
    try:
        res = eval(compile_query(text), env)
        if not isinstance(res, Seq):
            return ("unsupported", "query result is not a sequence"), log
        rows = [to_cols(x) for x in res]
        return ("rows", rows), log
    except Fault as f:
        return ("fault", f.kind), log
    except Unsupported as u:
        return ("unsupported", str(u)), log
    except ZeroDivisionError:
        return ("unsupported", "zero division"), log
    except (OverflowError, ValueError) as e:
        return ("unsupported", f"math domain: {e}"), log
    except (AttributeError, TypeError, NameError) as e:
        return ("unsupported", f"reference cannot evaluate: {type(e).__name__}: {e}"), log
    finally:
        CFG.lazy, CFG.minmax, CFG.range_mode, CFG.dead_elim, CFG.c_int_div = True, "strict", "normal", False, False


def evaluate_stable(text: str, ev: Event, **kw):
    """Evaluate lazily and eagerly; if the two disagree the query's meaning depends on evaluation strategy and the case
    is reported as ("ambiguous", ...) so that the caller skips it (never demand more than the property states)."""
    a, log = evaluate(text, ev, lazy=True, **kw)
    b, _ = evaluate(text, ev, lazy=False, **kw)
    if a != b:
        return ("ambiguous", (a, b)), log
    c, _ = evaluate(text, ev, lazy=True, dead_elim=True, **kw)
    if a != c:
        return ("ambiguous", (a, c)), log
    return a, log
