"""Property references: data members of the model objects read without a call (j.m_pt), undeclared (-> double) and declared
(int, float, bool) through add_method_type_info, in every kind of position."""
from mc.lang import qgen


def extra_metadata(backend):
    a = qgen.ALPHA[backend]
    md = []
    for cls in (a.primary_cls, a.secondary_cls):
        md += [{"metadata_type": "add_method_type_info", "type_string": cls, "method_name": "m_ntrk", "return_type": "int"},
               {"metadata_type": "add_method_type_info", "type_string": cls, "method_name": "m_q", "return_type": "float"},
               {"metadata_type": "add_method_type_info", "type_string": cls, "method_name": "m_good", "return_type": "bool"}]
    return tuple(md)


def queries(backend):
    a = qgen.ALPHA[backend]
    A = f"e.{a.primary}('A')"
    B = f"e.{a.secondary}('B')"
    per = f"ds.SelectMany(lambda e: {A}).Select(lambda j: {{}})"
    out = []
    for k, e in {"double": "j.m_pt", "int": "j.m_ntrk", "float": "j.m_q", "bool": "j.m_good", "arith": "(j.m_pt * 2 + j.m_ntrk)", "div": "(j.m_ntrk / 2)",
                 "with-method": "(j.m_pt - j.pt())", "compare": "(j.m_pt > 1)", "cond": "(j.m_pt if j.m_good else j.m_ntrk)", "tuple": "(j.m_pt, j.m_ntrk, j.m_good)",
                 "dict": "{'pt': j.m_pt, 'n': j.m_ntrk}", "fn": "abs(j.m_pt)", "part-first": "j.parts().First().m_pt", "parts": "j.parts().Select(lambda p: p.m_pt).Sum()",
                 "parts-int": "j.parts().Select(lambda p: p.m_ntrk).Sum()", "link": "j.link().m_pt" if a.has_nonnull else "j.m_pt"}.items():
        out.append((f"obj:{k}", per.format(e)))
    out += [
        ("ev:vector", f"ds.Select(lambda e: {A}.Select(lambda j: j.m_pt))"),
        ("ev:vector-int", f"ds.Select(lambda e: {A}.Select(lambda j: j.m_ntrk))"),
        ("ev:where", f"ds.Select(lambda e: {A}.Where(lambda j: j.m_pt > 1).Count())"),
        ("ev:where-bool", f"ds.Select(lambda e: {A}.Where(lambda j: j.m_good).Select(lambda j: j.m_pt))"),
        ("ev:sum", f"ds.Select(lambda e: {A}.Select(lambda j: j.m_pt).Sum())"),
        ("ev:sum-int", f"ds.Select(lambda e: {A}.Select(lambda j: j.m_ntrk).Sum())"),
        ("ev:max", f"ds.Select(lambda e: {A}.Select(lambda j: j.m_ntrk + 1).Max())"),
        ("ev:first", f"ds.Select(lambda e: {A}.First().m_pt)"),
        ("ev:index", f"ds.Select(lambda e: {A}[0].m_ntrk)"),
        ("ev:two-collections", f"ds.Select(lambda e: {A}.Select(lambda j: {B}.Where(lambda k: k.m_pt > j.m_pt).Count()))"),
        ("ev:2d", f"ds.Select(lambda e: {A}.Select(lambda j: j.parts().Select(lambda p: p.m_pt)))"),
        ("ev:event-where", f"ds.Where(lambda e: {A}.Select(lambda j: j.m_ntrk).Sum() > 0).Select(lambda e: {A}.Select(lambda j: j.m_q))"),
        ("ev:aggregate", f"ds.Select(lambda e: {A}.Aggregate(0.5, lambda acc, v: acc + v.m_pt))"),
    ]
    return out
