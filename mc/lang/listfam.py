"""List-literal rows: the final Select builds its row as a LIST (what every tuple becomes on the qastle wire) whose columns
live in different blocks - a sequence (pushed inside its loop, possibly behind a Where), an aggregate (set after its loop),
a First()-derived scalar, a constant - in every order of two and of three."""
import itertools

from mc.lang import qgen


def queries(backend):
    a = qgen.ALPHA[backend]
    A = f"e.{a.primary}('A')"
    B = f"e.{a.secondary}('B')"
    cols = {
        "seq": f"{A}.Select(lambda j: j.pt())",
        "seq-where": f"{A}.Where(lambda j: j.pt() > 1).Select(lambda j: j.pt())",
        "count": f"{A}.Count()",
        "count-b": f"{B}.Count()",
        "sum": f"{A}.Select(lambda j: j.nTrk()).Sum()",
        "const": "7",
        "seq-b": f"{B}.Select(lambda k: k.eta())",
        "seq-2d": f"{A}.Select(lambda j: j.tags().Select(lambda t: t * 2))",
    }
    out = []
    for (k1, c1), (k2, c2) in itertools.permutations(cols.items(), 2):
        out.append((f"list2:{k1}:{k2}", f"ds.Select(lambda e: [{c1}, {c2}])"))
    for ks in itertools.permutations(["seq-where", "count", "seq-b", "const"], 3):
        out.append((f"list3:{':'.join(ks)}", f"ds.Select(lambda e: [{', '.join(cols[k] for k in ks)}])"))
    for (k1, c1), (k2, c2) in itertools.permutations(list(cols.items())[:5], 2):
        out.append((f"list2-where:{k1}:{k2}", f"ds.Where(lambda e: {B}.Count() >= 0).Select(lambda e: [{c1}, {c2}])"))
    per = {"pt": "j.pt()", "ntags": "j.tags().Count()", "partsum": "j.parts().Select(lambda p: p.pt()).Sum()", "const": "1"}
    for (k1, c1), (k2, c2) in itertools.permutations(per.items(), 2):
        out.append((f"obj-list2:{k1}:{k2}", f"ds.SelectMany(lambda e: {A}).Select(lambda j: [{c1}, {c2}])"))
        out.append((f"obj-list2-where:{k1}:{k2}", f"ds.SelectMany(lambda e: {A}.Where(lambda j: j.pt() > 1)).Select(lambda j: [{c1}, {c2}])"))
    return out
