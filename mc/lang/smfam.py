"""Flattening family: SelectMany nested two and three deep (collection -> parts -> tags / parts), fed from filtered and
projected sequences, flattening a Range or a sequence built from an enclosing variable, and consumed by every terminal:
column, per-row stream, Count / Sum / Max, First, Where + Count, a second flattening, tuple next to other columns.
"""
import itertools

from mc.lang import qgen


def queries(backend):
    a = qgen.ALPHA[backend]
    A = f"e.{a.primary}('A')"
    B = f"e.{a.secondary}('B')"
    inner1 = {
        "tags": ("j.tags()", "num"),
        "parts": ("j.parts()", "obj"),
        "parts-where": ("j.parts().Where(lambda p: p.pt() > 0.5)", "obj"),
        "parts-pt": ("j.parts().Select(lambda p: p.pt() + j.pt())", "num"),
        "range": ("Range(0, j.nTrk())", "num"),
        "other": (f"{B}.Select(lambda k: k.pt() * j.pt())", "num"),
        "parts-tags": ("j.parts().SelectMany(lambda p: p.tags())", "num"),
        "parts-parts": ("j.parts().SelectMany(lambda p: p.parts())", "obj"),
    }
    outers = {"plain": A, "where": f"{A}.Where(lambda j: j.pt() > 1)"}
    out = []
    for (on, o), (inn, (i_, kind)) in itertools.product(outers.items(), inner1.items()):
        s = f"{o}.SelectMany(lambda j: {i_})"
        val = "v" if kind == "num" else "v.pt()"
        tag = f"{on}:{inn}"
        out += [
            (f"column:{tag}", f"ds.Select(lambda e: {s}.Select(lambda v: {val}))"),
            (f"stream:{tag}", f"ds.SelectMany(lambda e: {s}).Select(lambda v: {val})"),
            (f"count:{tag}", f"ds.Select(lambda e: {s}.Count())"),
            (f"sum:{tag}", f"ds.Select(lambda e: {s}.Select(lambda v: {val}).Sum())"),
            (f"max:{tag}", f"ds.Select(lambda e: {s}.Select(lambda v: {val}).Max())"),
            (f"first:{tag}", f"ds.Select(lambda e: {s}.Select(lambda v: {val}).First())"),
            (f"where-count:{tag}", f"ds.Select(lambda e: {s}.Where(lambda v: {val} > 1).Count())"),
            (f"tuple:{tag}", f"ds.Select(lambda e: ({A}.Count(), {s}.Select(lambda v: {val}), {B}.Select(lambda k: k.pt())))"),
            (f"ev-where:{tag}", f"ds.Where(lambda e: {s}.Count() > 1).Select(lambda e: {s}.Select(lambda v: {val}))"),
            (f"two-columns:{tag}", f"ds.Select(lambda e: ({s}.Select(lambda v: {val}), {s}.Count()))"),
        ]
        if kind == "obj":
            out += [(f"again-tags:{tag}", f"ds.Select(lambda e: {s}.SelectMany(lambda v: v.tags()))"),
                    (f"again-tags-sum:{tag}", f"ds.Select(lambda e: {s}.SelectMany(lambda v: v.tags()).Sum())"),
                    (f"2d:{tag}", f"ds.Select(lambda e: {s}.Select(lambda v: v.tags().Select(lambda t: t * 2)))")]
    seen = set()
    res = []
    for ctx, q in out:
        if q not in seen:
            seen.add(q)
            res.append((ctx, q))
    return res
