"""Stand-in for the part of python_on_whales' API that func_adl_xAOD.common.local_dataset uses:
`docker.run(image, command, volumes=..., remove=..., stream=...)` returning a generator of (stream name, bytes) and raising
`python_on_whales.exceptions.DockerException` when the container fails.  Behaviour is scripted through `PLAN`."""
from pathlib import Path

from . import exceptions  # noqa: F401
from .exceptions import DockerException

PLAN = {"chunks": [], "fail_after": None, "fail_at_call": False, "write_result": True, "nonce": "n", "write_before": None}
CALLS = []


class _Docker:
    def run(self, image, command=(), volumes=(), remove=False, stream=False, **kw):
        rec = {"image": image, "command": list(command), "volumes": [tuple(str(x) for x in v) for v in volumes], "remove": remove, "stream": stream,
               "extra_kwargs": sorted(kw)}
        # observe the package directory at the moment the container starts
        scripts = [v for v in volumes if len(v) >= 2 and str(v[1]).rstrip("/") == "/scripts"]
        results = [v for v in volumes if len(v) >= 2 and str(v[1]).rstrip("/") == "/results"]
        if scripts:
            d = Path(scripts[0][0])
            fl = d / "filelist.txt"
            rec["filelist"] = fl.read_text() if fl.exists() else None
            rec["package_files"] = sorted(p.name for p in d.iterdir())
            rec["runner_executable"] = (d / "runner.sh").exists() and bool((d / "runner.sh").stat().st_mode & 0o111)
        CALLS.append(rec)
        if PLAN["fail_at_call"]:
            raise DockerException(["docker", "run", image], 125)
        plan = dict(PLAN)

        def early_result(i):
            # a container that has already put its output into /results when it goes on to fail
            if plan.get("write_before") is not None and i == plan["write_before"] and results:
                (Path(results[0][0]) / "ANALYSIS.root").write_text(f"RESULT {plan['nonce']}\n")

        def gen():
            for i, (s, b) in enumerate(plan["chunks"]):
                early_result(i)
                if plan["fail_after"] is not None and i == plan["fail_after"]:
                    raise DockerException(["docker", "run", image], 1)
                yield (s, b)
            early_result(len(plan["chunks"]))
            if plan["fail_after"] is not None and plan["fail_after"] >= len(plan["chunks"]):
                raise DockerException(["docker", "run", image], 1)
            if plan["write_result"] and results:
                (Path(results[0][0]) / "ANALYSIS.root").write_text(f"RESULT {plan['nonce']}\n")
        if stream:
            return gen()
        out = b"".join(b for _, b in gen())
        return out.decode()


docker = _Docker()
