"""Stand-in for the part of the CMSSW python configuration language analyzer_cfg.py uses: every constructor gives a
plain record; `jobrun.py cms` interprets the resulting `process` the way cmsRun does for these few module kinds."""


class P:
    def __init__(self, kind, args, kw, untracked=False):
        self.kind, self.args, self.kw, self.untracked_ = kind, args, kw, untracked

    def value(self):
        return self.args[0] if self.args else None

    def __repr__(self):
        return f"{self.kind}{self.args}{self.kw}"


class _Maker:
    def __init__(self, untracked=False):
        self._u = untracked

    def __getattr__(self, kind):
        if kind.startswith("__"):
            raise AttributeError(kind)
        return lambda *a, **kw: P(kind, a, kw, self._u)


untracked = _Maker(True)
_m = _Maker(False)


def __getattr__(kind):
    if kind.startswith("__"):
        raise AttributeError(kind)
    return getattr(_m, kind)


class Path:
    def __init__(self, *mods):
        self.mods = list(mods)


class Process:
    def __init__(self, name, *a):
        object.__setattr__(self, "_name", name)
        object.__setattr__(self, "_loaded", [])

    def load(self, what):
        self._loaded.append(what)
