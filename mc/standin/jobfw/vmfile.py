"Shared helpers of the stand-in job frameworks: text 'ROOT files'."
import os


def events_in(path):
    if path.startswith("root://") or path.startswith("https://"):
        # a remote file: //host/<absolute path> - served from the same tree
        path = "/" + path.split("//", 2)[2].lstrip("/")
    with open(os.environ.get("VM_ROOT", "") + path if path.startswith("/data/") else path) as f:          # a missing input is an error, as in the real frameworks
        first = f.readline().split()
    if len(first) != 2 or first[0] != "EVENTS":
        raise RuntimeError(f"not an input file: {path}")
    return int(first[1])


def select(total, skip, maxev):
    "number of events processed out of `total` with the framework's skip / max settings (max < 0: all)"
    rest = max(0, total - max(0, skip))
    return rest if maxev is None or maxev < 0 else min(rest, maxev)


def write_output(path, trees, inputs, processed, total, algs):
    """trees: [(directory or '-', tree name)].  Every tree carries the run record as its payload."""
    with open(path, "w") as f:
        for d, name in trees:
            f.write(f"BEGIN TTree {d} {name}\n")
            f.write(f"NONCE {os.environ.get('VM_NONCE', '')}\n")
            for i in inputs:
                f.write(f"INPUT {i}\n")
            f.write(f"PROCESSED {processed} TOTAL {total}\n")
            for a in algs:
                f.write(f"ALG {a}\n")
            f.write("END\n")
