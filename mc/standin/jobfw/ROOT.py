"""Stand-in for the part of PyROOT + EventLoop + SampleHandler that ATestRun_eljob.py uses.  Anything else that is
touched is recorded and has no effect (class _Any)."""
import os

import vmfile

TOUCHED = []


class _Any:
    def __init__(self, name):
        object.__setattr__(self, "_n", name)

    def __getattr__(self, k):
        if k.startswith("__"):
            raise AttributeError(k)
        TOUCHED.append(self._n + "." + k)
        return _Any(self._n + "." + k)

    def __call__(self, *a, **kw):
        TOUCHED.append(self._n + "()")
        return _Any(self._n + "()")


class _SampleHandler:
    def __init__(self):
        self.samples = []      # (name, [files])
        self.meta = {}

    def setMetaString(self, k, v):
        self.meta[k] = v

    def printContent(self):
        for n, fs in self.samples:
            print("sample", n, fs)

    def __getattr__(self, k):
        if k.startswith("__"):
            raise AttributeError(k)
        return _Any("SampleHandler." + k)


def _readFileList(sh, name, path):
    files = []
    with open(path) as f:
        for line in f:
            line = line.strip()
            if line and not line.startswith("#"):
                files.append(line)
    sh.samples.append((name, files))


class _SH:
    SampleHandler = _SampleHandler
    readFileList = staticmethod(_readFileList)


class _Options:
    def __init__(self):
        self.v = {}

    def _set(self, k, v):
        self.v[k] = v

    setDouble = setString = setInteger = setBool = _set


class _OutputStream:
    def __init__(self, name, *a):
        self.name = name


class _Job:
    optMaxEvents = "nc_EventLoop_MaxEvents"
    optSkipEvents = "nc_EventLoop_SkipEvents"

    def __init__(self):
        self.sh = None
        self.opts = _Options()
        self.algs = []
        self.outputs = []

    def sampleHandler(self, sh):
        self.sh = sh

    def options(self):
        return self.opts

    def algsAdd(self, alg):
        self.algs.append(alg)

    def outputAdd(self, o):
        self.outputs.append(o)

    def __getattr__(self, k):
        if k.startswith("__"):
            raise AttributeError(k)
        return _Any("Job." + k)


class _DirectDriver:
    def submit(self, job, subdir):
        if os.path.exists(subdir):
            raise RuntimeError(f"EventLoop: could not create output directory {subdir}")      # as the real driver
        if job.sh is None:
            raise RuntimeError("EventLoop: job without a sample handler")
        os.makedirs(subdir)
        maxev = job.opts.v.get(_Job.optMaxEvents)
        skip = job.opts.v.get(_Job.optSkipEvents, 0)
        for name, files in job.sh.samples:
            total = sum(vmfile.events_in(f) for f in files)
            done = vmfile.select(total, int(skip or 0), None if maxev is None else int(maxev))
            for o in job.outputs:
                d = os.path.join(subdir, "data-" + o.name)
                os.makedirs(d, exist_ok=True)
                vmfile.write_output(os.path.join(d, name + ".root"), [("-", "T")] if job.algs else [], files, done, total, [getattr(a, "_type", "?") for a in job.algs])

    def __getattr__(self, k):
        if k.startswith("__"):
            raise AttributeError(k)
        return _Any("DirectDriver." + k)


class _EL:
    Job = _Job
    OutputStream = _OutputStream
    DirectDriver = _DirectDriver


SH = _SH
EL = _EL
xAOD = _Any("xAOD")
gROOT = _Any("gROOT")


def __getattr__(k):
    if k.startswith("__"):
        raise AttributeError(k)
    return _Any(k)
