// Stand-in for the part of ROOT that the CMS copy_root_tree.C macro uses, over the text "ROOT files" of the stand-in job
// frameworks (see README).  File format:
//   BEGIN <class> <dir|-> <name>     (dir '-' = top level)
//   ...payload lines...
//   END
// Semantics kept from ROOT: opening a file makes it the current directory (gDirectory); opening a missing file for
// READ gives a zombie (errors are printed, nothing throws); TDirectory::cd(path) returns false and leaves gDirectory
// alone if the path does not exist; CloneTree() attaches the clone to the current directory; Write() of an object with
// the name of one already written replaces it (a new cycle of the same key).
#include <cstdlib>
#include <cstring>
#include <fstream>
#include <iostream>
#include <sstream>
#include <string>
#include <vector>
using namespace std;

struct VObj { string cls, dir, name; vector<string> lines; };

struct VStore {
  string path; bool ok = false; bool writable = false; vector<VObj> objs;
  void load() {
    ifstream f(path);
    if (!f) { ok = false; return; }
    ok = true;
    string l; VObj cur; bool in = false;
    while (getline(f, l)) {
      if (l.rfind("BEGIN ", 0) == 0) { istringstream s(l.substr(6)); cur = VObj(); s >> cur.cls >> cur.dir >> cur.name; in = true; }
      else if (l == "END") { if (in) objs.push_back(cur); in = false; }
      else if (in) cur.lines.push_back(l);
    }
  }
  void flush() {
    if (!writable) return;
    ofstream f(path, ios::trunc);
    for (auto &o : objs) { f << "BEGIN " << o.cls << " " << o.dir << " " << o.name << "\n"; for (auto &l : o.lines) f << l << "\n"; f << "END\n"; }
  }
};

class TObject { public: virtual ~TObject() {} };

class TString {
  string s;
public:
  TString(const char *c = "") : s(c ? c : "") {}
  bool operator==(const char *o) const { return s == o; }
  bool operator!=(const char *o) const { return s != o; }
  const char *Data() const { return s.c_str(); }
};

class TKey : public TObject {
public:
  VObj *o;
  explicit TKey(VObj *x) : o(x) {}
  const char *GetClassName() const { return o->cls.c_str(); }
  const char *GetName() const { return o->name.c_str(); }
};

class TList : public TObject { public: vector<TObject *> items; };

class TIter {
  TList *l; size_t i = 0;
public:
  TIter(TList *x) : l(x) {}
  TObject *operator()() { return Next(); }
  TObject *Next() { if (!l || i >= l->items.size()) return nullptr; return l->items[i++]; }
};

class TDirectory;
static TDirectory *gDirectory = nullptr;

class TDirectory : public TObject {
public:
  VStore *store; string dir;     // dir "-" = top level of the file
  TDirectory(VStore *s, const string &d) : store(s), dir(d) {}
  TList *GetListOfKeys() {
    TList *l = new TList();
    for (auto &o : store->objs) if (o.dir == dir) l->items.push_back(new TKey(&o));
    return l;
  }
  template <class T> void GetObject(const char *name, T *&ptr);
  virtual bool cd(const char *path = nullptr) {
    if (path == nullptr || !*path) { gDirectory = this; return true; }
    if (dir == "-") {
      for (auto &o : store->objs) if (o.dir == path) { gDirectory = new TDirectory(store, path); return true; }
    }
    cerr << "Error in <TDirectory::cd>: Unknown directory " << path << endl;
    return false;
  }
};

class TTree : public TObject {
public:
  VObj data;
  TDirectory *owner = nullptr;
  TTree *CloneTree(long long = -1, const char * = "") {
    TTree *t = new TTree(); t->data = data; t->owner = gDirectory;
    if (gDirectory) t->data.dir = gDirectory->dir;
    return t;
  }
  int Write(const char * = nullptr, int = 0, int = 0) {
    if (!owner || !owner->store->writable) { cerr << "Error in <TTree::Write>: directory is not writable" << endl; return 0; }
    for (auto &o : owner->store->objs) if (o.dir == data.dir && o.name == data.name && o.cls == data.cls) { o = data; owner->store->flush(); return 1; }
    owner->store->objs.push_back(data); owner->store->flush(); return 1;
  }
  long long GetEntries() const { return 0; }
};

template <class T> void TDirectory::GetObject(const char *name, T *&ptr) {
  ptr = nullptr;
  for (auto &o : store->objs) if (o.dir == dir && o.name == name && o.cls == "TTree") { TTree *t = new TTree(); t->data = o; t->owner = this; ptr = t; return; }
}

class TFile : public TDirectory {
  VStore st;
public:
  TFile(const char *name, const char *mode = "READ") : TDirectory(nullptr, "-") {
    store = &st; st.path = name;
    string m(mode);
    if (m == "READ" || m == "") {
      st.load();
      if (!st.ok) { cerr << "Error in <TFile::TFile>: file " << name << " does not exist" << endl; return; }   // zombie: gDirectory unchanged
    } else if (m == "RECREATE" || m == "CREATE" || m == "NEW") {
      st.ok = true; st.writable = true; st.flush();
    } else if (m == "UPDATE") {
      st.load(); st.ok = true; st.writable = true;
    }
    gDirectory = this;
  }
  static TFile *Open(const char *name, const char *mode = "READ") { return new TFile(name, mode); }
  bool IsZombie() const { return !st.ok; }
  bool IsOpen() const { return st.ok; }
  int Write(const char * = nullptr, int = 0, int = 0) { st.flush(); return 1; }
  void Close(const char * = "") { st.flush(); }
};
