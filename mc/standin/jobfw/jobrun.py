"""`jobrun.py atlas <script> [args...]` runs the ATLAS job options as `python <script> args` would inside AnalysisBase;
`jobrun.py cms <cfg>` does what cmsRun does with the configuration: executes it and runs the process it defines."""
import os
import runpy
import sys

HERE = os.path.dirname(os.path.abspath(__file__))
sys.path.insert(0, HERE)
import vmfile  # noqa: E402


def run_atlas(script, args):
    sys.argv = [script] + list(args)
    runpy.run_path(script, run_name="__main__")


def run_cms(cfg):
    sys.argv = ["cmsRun", cfg]
    g = runpy.run_path(cfg, run_name="__main__")
    from FWCore.ParameterSet.Config import P, Path, Process
    process = g.get("process")
    if not isinstance(process, Process):
        raise RuntimeError("cmsRun: the configuration defines no process")
    attrs = {k: v for k, v in vars(process).items() if not k.startswith("_")}
    src = attrs.get("source")
    if not isinstance(src, P) or src.kind != "Source":
        raise RuntimeError("cmsRun: no source")
    files = []
    for f in src.kw["fileNames"].args:
        f = f.strip()
        files.append(f[5:] if f.startswith("file:") else f)
    maxev = -1
    me = attrs.get("maxEvents")
    if isinstance(me, P) and "input" in me.kw:
        maxev = int(me.kw["input"].value())
    skip = 0
    if "skipEvents" in src.kw:
        skip = int(src.kw["skipEvents"].value())
    total = sum(vmfile.events_in(f) for f in files)
    done = vmfile.select(total, skip, maxev)
    labels = {id(v): k for k, v in attrs.items()}       # a module's label is the attribute it is assigned to
    scheduled = []
    for v in attrs.values():
        if isinstance(v, Path):
            for m in v.mods:
                if isinstance(m, P) and m.kind in ("EDAnalyzer", "EDProducer", "EDFilter"):
                    scheduled.append((labels.get(id(m), "?"), m.args[0] if m.args else "?"))
    tfs = [v for v in attrs.values() if isinstance(v, P) and v.kind == "Service" and v.args and v.args[0] == "TFileService"]
    for s in tfs:
        # TFileService gives every module a directory named after its label; the analyzer books its tree there
        vmfile.write_output(s.kw["fileName"].value(), [(lab, "T") for lab, typ in scheduled if typ == "Analyzer"], files, done, total, [typ for lab, typ in scheduled])


if __name__ == "__main__":
    if sys.argv[1] == "atlas":
        run_atlas(sys.argv[2], sys.argv[3:])
    elif sys.argv[1] == "cms":
        run_cms(sys.argv[2])
    else:
        sys.exit(64)
