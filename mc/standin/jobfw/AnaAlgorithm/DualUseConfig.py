class _Alg:
    def __init__(self, typ, name):
        object.__setattr__(self, "_type", typ)
        object.__setattr__(self, "_name", name)
        object.__setattr__(self, "_props", {})

    def __setattr__(self, k, v):
        self._props[k] = v


def createAlgorithm(typ, name):
    return _Alg(typ, name)


def createService(typ, name, *a):
    return _Alg(typ, name)


def addPrivateTool(*a, **kw):
    return None
