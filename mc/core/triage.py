"""Developer tool: group the replay payloads of a property by symptom / exception to help triage."""
import json, sys, re
from collections import Counter, defaultdict
from pathlib import Path
prop = sys.argv[1]
groups = defaultdict(list)
for line in open(prop):
    r = json.loads(line)
    key = (r.get('symptom'), re.sub(r'\d+', 'N', (r.get('exc') or r.get('error') or str(r.get('explained_by')))[:90]))
    groups[key].append(r)
for k, v in sorted(groups.items(), key=lambda kv: -len(kv[1])):
    print(len(v), k)
    for r in sorted(v, key=lambda r: len(r.get('query','')))[:int(sys.argv[2]) if len(sys.argv)>2 else 3]:
        print('     ', r.get('backend'), r.get('query'), '| exp', str(r.get('expected'))[:80], '| obs', r.get('observed_end'), str(r.get('observed'))[:80], r.get('what',''))
