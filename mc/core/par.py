"""Process-parallel map with per-item results keyed by index (order-free, deterministic)."""
import multiprocessing as mp
import os


def ncpu():
    try:
        return int(os.environ.get("VERIF_JOBS", "0")) or min(16, os.cpu_count() or 4)
    except ValueError:
        return 8


def pmap(fn, items, chunksize=1, procs=None):
    items = list(items)
    procs = procs or ncpu()
    if procs <= 1 or len(items) <= 1:
        return [fn(x) for x in items]
    ctx = mp.get_context("fork")
    with ctx.Pool(procs) as pool:
        return pool.map(fn, items, chunksize=chunksize)
