"""Developer tool: print the 'bounds actually completed' table of DESIGN.md section 9 from the evidence files of the last quick run.

    python -m mc.core.bounds_table            # markdown on stdout
    python -m mc.core.bounds_table --write    # replace the table in DESIGN.md (between its header row and the blank line after it)
"""
import json
import sys
from pathlib import Path

VERIF = Path(__file__).resolve().parents[2]
WHAT = {
    "C01": "programs: typed grammar (ATLAS k<=4, CMS k<=3) + argument-scope, mixed-scope, explicit-Aggregate (seeds, consumed totals), structure, sequence-parameter (incl. conditionals), list, member and first-of-sequences families x 63 events; rendered job configurations executed",
    "C02": "grammar / shape / partiality / argument-scope / sequence-parameter / enum / member / seeded-aggregate packages, (column names, counter phase) sweeps, all orders of the three backends in one process",
    "C03": "(terminal form, column kinds incl. literal-test conditionals and non-ASCII names, backend, executor history) programs",
    "C04": "(partial operation, placement, guard) programs x 63 events; end-to-end loudness in the script sandbox",
    "C05": "C01's quick programs + partiality + opaque C++ + repeated column names x 135 histories of a 10-event set, locals not pre-initialised",
    "C06": "(collection, bank, position, declaration incl. repeated and foreign-backend declarations) programs x 3 events",
    "C07": "all transitions of histories <= 4 events over 2 live executors (translate, re-translate the same object, apply only, failing write, extend)",
    "C08": "programs (grammar, shadowing, family samples, declared and math names) -> all alpha / qastle / metadata-position / fusion / shared-node variants",
    "C09": "(host, position, construct) grafts, whole-query cases, and the same after a declaring earlier query",
    "C10": "(declared signature, use site, backend, earlier query) programs with generated model classes x 18 events",
    "C11": "(specification, call site, executor history) programs x 15 events",
    "C12": "(function, context) cells x 3 events + edge-of-domain cells + header / build-flag checks",
    "C13": "operator-table cells (incl. after re-declaring earlier queries) x 5 events",
    "C14": "block multisets / placements / executor histories / re-translations of one query object",
    "C15": "all sequences of <= 3 blocks x 3 dependency-container shapes (thorough: <= 4 blocks); executor scenarios",
    "C16": "invocations in all histories of the bounded alphabet, single, late and persistent fault re-runs, three invocation modes",
    "C17": "configurations x container behaviours x prior run",
    "C18": "(literal, position) programs",
}


def rows():
    out = []
    for i in range(1, 19):
        pid = f"C{i:02d}"
        e = json.loads((VERIF / "evidence" / f"{pid}.json").read_text())
        c = e["coverage"]
        n = lambda v: f"{v:,}".replace(",", " ")
        out.append(f"| {pid} | {n(c['states'])} states / {n(c['transitions'])} transitions: {WHAT[pid]} | {n(c['traces_validated_against_impl'])} | {e['wall_s']:.0f} s |")
    return out


def main():
    head = "| id | explored (quick) | executions validated against the implementation | wall |\n|---|---|---|---|"
    table = head + "\n" + "\n".join(rows())
    if "--write" not in sys.argv:
        print(table)
        return
    p = VERIF / "DESIGN.md"
    s = p.read_text()
    a = s.index("| id | explored (quick) | executions validated against the implementation | wall |")
    b = s.index("\n\n", a)
    p.write_text(s[:a] + table + s[b:])
    print("DESIGN.md table replaced")


if __name__ == "__main__":
    main()
