"""Shared execution pipeline: translate -> batch compile -> run on events -> parsed observations.

Work is split into chunks; each chunk is processed by one worker process (translate + one compile + one run).
"""
import ast
import os
import time
from dataclasses import dataclass, field
from pathlib import Path
from typing import Any, Dict, List, Optional, Tuple

from mc.core import par
from mc.core.translate import Package, parse_query, translate_ast
from mc.cxx import build
from mc.edm.events import Event, events_text


@dataclass
class Case:
    pid: int
    backend: str
    text: str                      # query text over `ds`
    metadata: Tuple = ()           # tuple of dicts (wrapped around the dataset as MetaData calls)
    info: Dict[str, Any] = field(default_factory=dict)
    plans: Optional[List[Tuple[str, List[int]]]] = None   # [(tag, [event indices])]; default: one job per event


@dataclass
class Outcome:
    case: Case
    status: str                    # "ok" | "refused" | "compile_fail"
    pkg: Optional[Package] = None
    errors: List[str] = field(default_factory=list)
    jobs: List[build.JobResult] = field(default_factory=list)


def wrap_metadata(a: ast.AST, metadata) -> ast.AST:
    """Attach MetaData(<dataset>, {...}) calls directly around the EventDataset node."""
    if not metadata:
        return a

    class W(ast.NodeTransformer):
        def visit_Call(self, n):
            self.generic_visit(n)
            if isinstance(n.func, ast.Name) and n.func.id == "EventDataset":
                cur = n
                for md in metadata:
                    cur = ast.Call(func=ast.Name("MetaData", ast.Load()), args=[cur, ast.parse(repr(md), mode="eval").body], keywords=[])
                return cur
            return n
    return ast.fix_missing_locations(W().visit(a))


def translate_case(c: Case) -> Package:
    a = wrap_metadata(parse_query(c.text), c.metadata)
    prior = c.info.get("prior") if isinstance(c.info, dict) else None
    if prior:
        # history: earlier queries (text, metadata) are translated first on the SAME executor object - whether they
        # succeed or raise - and then the case itself, without resetting anything in between
        from mc.core.translate import _executor_class, reset_library_state
        # (info["prior_executor"] == "other": every earlier query and the case itself get an executor object of their own,
        # the way LocalFile / the datasets use the library - still one process, nothing reset by the harness)
        reset_library_state()
        other = c.info.get("prior_executor") == "other"
        exe = _executor_class(c.backend)()
        for ptext, pmd in prior:
            translate_ast(wrap_metadata(parse_query(ptext), tuple(pmd)), c.backend, query_text=ptext, executor=exe, fresh=False)
            if other:
                exe = _executor_class(c.backend)()
        return translate_ast(a, c.backend, query_text=c.text, executor=exe, fresh=False)
    return translate_ast(a, c.backend, query_text=c.text)


def run_chunk(args) -> List[Outcome]:
    cases, events, flags, keep_files = args
    backend = cases[0].backend
    outs: Dict[int, Outcome] = {}
    progs = []
    for c in cases:
        pkg = translate_case(c)
        if not pkg.ok:
            outs[c.pid] = Outcome(c, "refused", pkg)
            continue
        outs[c.pid] = Outcome(c, "ok", pkg)
        progs.append(build.Program(c.pid, backend, pkg.files, c.info.get("prelude", "")))
    if progs:
        with build.Scratch() as s:
            exe, failed = build.compile_batch(s.path, progs, backend, extra_flags=flags)
            for pid, errs in failed.items():
                outs[pid].status = "compile_fail"
                outs[pid].errors = errs
            if exe is not None:
                plans = []
                for p in progs:
                    if p.idx in failed:
                        continue
                    c = outs[p.idx].case
                    if c.plans is None:
                        plans += [(p.idx, "s", [k]) for k in range(len(events))]
                    else:
                        plans += [(p.idx, tag, evs) for tag, evs in c.plans]
                jobs = build.run_binary(exe, events_text(events), plans)
                for j in jobs:
                    outs[j.job].jobs.append(j)
    res = [outs[c.pid] for c in cases]
    if not keep_files:
        for o in res:
            if o.pkg is not None and o.status == "ok":
                o.pkg.files = {}
    return res


def chunks(cases: List[Case], size: int):
    by_backend: Dict[str, List[Case]] = {}
    for c in cases:
        by_backend.setdefault(c.backend, []).append(c)
    out = []
    for b, cs in by_backend.items():
        for i in range(0, len(cs), size):
            out.append(cs[i:i + size])
    return out


def execute(cases: List[Case], events: List[Event], chunk_size=80, flags=(), keep_files=False, post=None):
    """Run all cases.  `post(outcomes_of_chunk) -> X` is applied inside the worker (so that the oracle also runs in
    parallel); returns the list of X (or the flat list of outcomes if post is None)."""
    work = [(ch, events, tuple(flags), keep_files) for ch in chunks(cases, chunk_size)]
    fn = _Runner(post)
    res = par.pmap(fn, work)
    if post is None:
        return [o for r in res for o in r]
    return res


class _Runner:
    def __init__(self, post):
        self.post = post

    def __call__(self, w):
        outs = run_chunk(w)
        return self.post(outs, w[1]) if self.post is not None else outs


# ------------------------------------------------------------------ standalone confirmation (anti-false-alarm)

def run_standalone(c: Case, events: List[Event], plans: List[Tuple[str, List[int]]], flags=()) -> Outcome:
    """Re-translate one case and build its package *alone*, with the real include layout, no namespace splicing."""
    pkg = translate_case(c)
    if not pkg.ok:
        return Outcome(c, "refused", pkg)
    backend = c.backend
    with build.Scratch(prefix="vmc1_") as s:
        d = s.path
        stub = d / "stubs"
        stub.mkdir()
        cls = build.class_name(backend)
        if backend == "atlas":
            (d / "analysis").mkdir()
            (d / "analysis" / "query.h").write_text(pkg.files["query.h"])
            (d / "query.cxx").write_text(pkg.files["query.cxx"])
            build._ensure_stubs(stub, pkg.files["query.h"], backend)
            build._ensure_stubs(stub, pkg.files["query.cxx"], backend)
            src = "query.cxx"
        else:
            (d / "Analyzer.cc").write_text(pkg.files["Analyzer.cc"], encoding="utf-8", errors="surrogateescape")
            build._ensure_stubs(stub, pkg.files["Analyzer.cc"], backend)
            src = "Analyzer.cc"
        (d / "prelude.h").write_text(c.info.get("prelude", ""))
        main = (f'#include "{build.model_header(backend)}"\n#include "prelude.h"\n#include "{src}"\n'
                "int main(){ auto evs = vm::parse_events(std::cin); auto plans = vm::parse_plan(std::cin);\n"
                f" for (auto &p : plans) vm::run_job<{cls}>(p, evs); return 0; }}\n")
        (d / "main.cpp").write_text(main)
        import subprocess
        exe = d / "one.bin"
        cmd = [build.CXX] + build.BASE_FLAGS + list(flags) + ["-I", str(build.INCLUDE_DIR), "-I", str(stub), "-I", str(d), str(d / "main.cpp"), "-o", str(exe)]
        r = subprocess.run(cmd, capture_output=True, text=True, errors="replace")
        if r.returncode != 0:
            errs = [ln for ln in r.stderr.split("\n") if "error" in ln][:10]
            return Outcome(c, "compile_fail", pkg, errs)
        jobs = build.run_binary(exe, events_text(events), [(0, tag, evs) for tag, evs in plans])
        return Outcome(c, "ok", pkg, jobs=jobs)
