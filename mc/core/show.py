"""Developer tool: show generated event code for a query and run it standalone on the small domain.
usage: python -m mc.core.show <backend> '<query>' [event ids...]"""
import sys
from mc.core.pipeline import Case, run_standalone, translate_case
from mc.edm.events import event_domain
from mc.lang import qgen
from mc.lang.ref import evaluate_stable
backend, q = sys.argv[1], sys.argv[2]
evs = event_domain(2, 1)
ids = [int(x) for x in sys.argv[3:]] or list(range(len(evs)))
c = Case(0, backend, q, tuple(qgen.method_metadata(qgen.ALPHA[backend])))
pkg = translate_case(c)
if not pkg.ok:
    print("REFUSED", pkg.exc_type, pkg.exc_msg); sys.exit()
txt = pkg.files[pkg.source_name]
i = txt.find('execute ()' if backend == 'atlas' else 'Analyzer::analyze')
j = txt.find('return StatusCode::SUCCESS', i) if backend == 'atlas' else txt.find('// ------------ method called once each job just before', i)
print("\n".join(l for l in txt[i:j].split("\n") if l.strip() and not l.strip().startswith('//')))
o = run_standalone(c, evs, [("s", [k]) for k in ids])
print(o.status, o.errors)
for jb in o.jobs:
    for er in jb.events:
        exp, _ = evaluate_stable(q, evs[er.event])
        print(er.event, [len(b[1]) for b in evs[er.event].banks], "EXP", exp, "| OBS", er.end, er.what, [r[1] for r in er.rows])
