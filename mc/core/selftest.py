"""Oracle / harness self-test, run by setup_cmd: the reference runtime on hand-written triples, and one end-to-end
translate-compile-run round trip per backend.  A failure here means the harness is broken, not the repository."""
import sys
from mc.edm.events import Event, Obj
from mc.lang.ref import evaluate, evaluate_stable

A = Obj(pt=2.5, eta=1.0, nTrk=3, q=1.5, good=True, tags=(0.25, -2.0), parts=(Obj(pt=1.5, tags=(0.75,)),), link=Obj(pt=4.0))
B = Obj(pt=-1.5, eta=0.5, nTrk=0, q=0.25, good=False)
EV = Event(0, (("A", (A, B)), ("B", ()), ("EI", (Obj(pt=8.0),))))
EMPTY = Event(1, (("A", ()), ("B", ())))

TRIPLES = [
    ("ds.Select(lambda e: e.Jets('A').Select(lambda j: j.pt()))", EV, ("rows", [[[2.5, -1.5]]])),
    ("ds.SelectMany(lambda e: e.Jets('A')).Select(lambda j: j.pt()*2)", EV, ("rows", [[5.0], [-3.0]])),
    ("ds.SelectMany(lambda e: e.Jets('A')).Select(lambda j: (j.pt(), j.nTrk()))", EV, ("rows", [[2.5, 3], [-1.5, 0]])),
    ("ds.Select(lambda e: {'a': e.Jets('A').Count(), 'b': 1})", EV, ("rows", [[2, 1]])),
    ("ds.Where(lambda e: e.Jets('A').Count() > 2).Select(lambda e: 1)", EV, ("rows", [])),
    ("ds.Select(lambda e: e.Jets('A').Where(lambda j: j.pt() > 0).Count())", EV, ("rows", [[1]])),
    ("ds.Select(lambda e: e.Jets('A').Select(lambda j: j.pt()).Sum())", EV, ("rows", [[1.0]])),
    ("ds.Select(lambda e: e.Jets('A').Select(lambda j: j.pt()).Max())", EV, ("rows", [[2.5]])),
    ("ds.Select(lambda e: e.Jets('A').Select(lambda j: j.pt()).Min())", EV, ("rows", [[-1.5]])),
    ("ds.Select(lambda e: e.Jets('A').Select(lambda j: j.pt()).Max())", EMPTY, ("fault", "minmax-empty")),
    ("ds.Select(lambda e: e.Jets('A').First().pt())", EV, ("rows", [[2.5]])),
    ("ds.Select(lambda e: e.Jets('A').First().pt())", EMPTY, ("fault", "first-empty")),
    ("ds.Select(lambda e: e.Jets('A')[1].pt())", EV, ("rows", [[-1.5]])),
    ("ds.Select(lambda e: e.Jets('A')[2].pt())", EV, ("fault", "index")),
    ("ds.Select(lambda e: e.Jets('Z').Count())", EV, ("fault", "missing-bank")),
    ("ds.Select(lambda e: e.Jets('A').Select(lambda j: j.tags()))", EV, ("rows", [[[[0.25, -2.0], []]]])),
    ("ds.Select(lambda e: e.Jets('A').SelectMany(lambda j: j.tags()))", EV, ("rows", [[[0.25, -2.0]]])),
    ("ds.Select(lambda e: e.Jets('A').Select(lambda j: j.parts().Count()))", EV, ("rows", [[[1, 0]]])),
    ("ds.Select(lambda e: e.Jets('A').Select(lambda j: j.link().pt()))", EV, ("fault", "nullderef")),
    ("ds.Select(lambda e: e.Jets('A').Where(lambda j: isNonnull(j.link())).Select(lambda j: j.link().pt()))", EV, ("rows", [[[4.0]]])),
    ("ds.Select(lambda e: e.Jets('A').Select(lambda j: 1 if j.pt() > 0 else 2))", EV, ("rows", [[[1, 2]]])),
    ("ds.Select(lambda e: e.Jets('A').Count() / 4)", EV, ("rows", [[0.5]])),
    ("ds.Select(lambda e: Range(1, 3))", EV, ("rows", [[[1, 2]]])),
    ("ds.Select(lambda e: e.Jets('A').Select(lambda j: j.tags().Aggregate(0, lambda a, v: a + v)))", EV, ("rows", [[[-1.75, 0]]])),
    ("ds.Select(lambda e: e.Jets('A').Select(lambda j: j.pt() > 0 and j.isGood()))", EV, ("rows", [[[True, False]]])),
    ("ds.Select(lambda e: e.Jets('A').Count() > 0 and e.Jets('A').First().pt() > 2)", EMPTY, ("rows", [[False]])),
    ("ds.Select(lambda e: abs(e.Jets('A')[1].pt()))", EV, ("rows", [[1.5]])),
    ("ds.Select(lambda e: e.EventInfo('EI').pt())", EV, ("rows", [[8.0]])),
]


def main():
    bad = 0
    for q, ev, want in TRIPLES:
        got, _ = evaluate(q, ev)
        if got != want:
            print("SELFTEST FAIL", q, "want", want, "got", got)
            bad += 1
    # laziness ambiguity is detected
    amb, _ = evaluate_stable("ds.Select(lambda e: e.Jets('A').Select(lambda j: j.tags()[0]).First())", EV)
    if amb[0] != "ambiguous":
        print("SELFTEST FAIL: lazy/eager ambiguity not detected", amb)
        bad += 1
    # end-to-end round trip per backend
    from mc.core.pipeline import Case, run_standalone
    from mc.cxx.build import parse_value
    for backend, coll in (("atlas", "Jets"), ("cms_aod", "Muons"), ("cms_miniaod", "Muons")):
        q = f"ds.Select(lambda e: e.{coll}('A').Select(lambda j: j.pt()))"
        o = run_standalone(Case(0, backend, q), [EV, EMPTY], [("s", [0, 1])])
        rows = [[parse_value(c) for c in r[1]] for j in o.jobs for e in j.events for r in e.rows] if o.status == "ok" else None
        if rows != [[[2.5, -1.5]], [[]]]:
            print("SELFTEST FAIL end-to-end", backend, o.status, o.errors, rows)
            bad += 1
    print(f"selftest: {len(TRIPLES)} reference triples, 3 end-to-end round trips, failures={bad}")
    return 1 if bad else 0


if __name__ == "__main__":
    sys.exit(main())
