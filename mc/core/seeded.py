"""Evaluate a seeded property-breaking change kept under /verif/seeded/<id>/ (patch.diff, demo, meta.json).

    python -m mc.core.seeded eval <id> [--checks C01,C05 | --all] [--tier quick]
    python -m mc.core.seeded table            # markdown table of all seeded changes and what caught them
    python -m mc.core.seeded evalall [--missing]   # regression: every kept change against the quick check of its property

eval: requires a clean /repo, applies the patch there, runs the repository's test suite (the change is only admissible if
it still passes), the demonstration (must fail with the change), the selected checks (default: the property the change
targets), then reverts /repo - always.  Results are stored in meta.json under "evaluation".
"""
import json
import os
import re
import subprocess
import sys
import time
from pathlib import Path

VERIF = Path(__file__).resolve().parents[2]
SEEDED = VERIF / "seeded"
REPO = Path("/repo")
ALL = [f"C{i:02d}" for i in range(1, 19)]


def sh(cmd, cwd=None, timeout=3600, env=None):
    r = subprocess.run(cmd, cwd=cwd, shell=isinstance(cmd, str), capture_output=True, text=True, timeout=timeout, env=env, errors="replace")
    return r.returncode, r.stdout + r.stderr


def repo_clean():
    rc, out = sh(["git", "-C", str(REPO), "status", "--porcelain"])
    return out.strip() == ""


def evaluate(sid, checks, tier):
    d = SEEDED / sid
    meta = json.loads((d / "meta.json").read_text())
    patch = d / "patch.diff"
    demo = next((p for p in d.iterdir() if p.name.startswith("demo")), None)
    if not repo_clean():
        raise SystemExit("/repo has uncommitted changes - refusing")
    res = {"at": time.strftime("%Y-%m-%d %H:%M:%S"), "repo_head": sh(["git", "-C", str(REPO), "rev-parse", "--short", "HEAD"])[1].strip(), "tier": tier}
    # baseline demo (must pass without the change)
    if demo is not None:
        rc, out = sh(["/venv/bin/python", str(demo)], cwd=str(REPO), timeout=600)
        res["demo_without_change"] = {"exit": rc, "tail": out[-300:]}
    rc, out = sh(["git", "-C", str(REPO), "apply", "--whitespace=nowarn", str(patch)])
    if rc != 0:
        raise SystemExit(f"patch does not apply: {out}")
    try:
        rc, out = sh("/venv/bin/python -m pytest -q -p no:cacheprovider 2>&1 | tail -3", cwd=str(REPO), timeout=1800)
        m = re.search(r"(\d+) passed", out)
        res["tests"] = {"passed": int(m.group(1)) if m else 0, "failed": "failed" in out, "tail": out[-200:]}
        if demo is not None:
            rc, out = sh(["/venv/bin/python", str(demo)], cwd=str(REPO), timeout=600)
            res["demo_with_change"] = {"exit": rc, "tail": out[-300:]}
        res["checks"] = {}
        import tempfile
        import shutil
        scratch = tempfile.mkdtemp(prefix="vseed_")      # evidence / replays of runs against the broken tree do not belong under /verif
        for c in checks:
            t0 = time.time()
            rc, out = sh([str(VERIF / "run"), c, tier], cwd=str(VERIF), timeout=7200, env=dict(os.environ, VERIF_OUT=scratch))
            viol = [l for l in out.split("\n") if l.startswith("VIOLATION")]
            detail = [l.strip() for l in out.split("\n") if l.startswith("  ")][:2]
            res["checks"][c] = {"exit": rc, "violation_lines": len(viol), "first": (detail[0][:300] if detail else ""), "wall_s": round(time.time() - t0, 1)}
            print(f"  {sid} -> {c} {tier}: exit {rc}, {len(viol)} VIOLATION lines; {detail[0][:160] if detail else ''}")
    finally:
        try:
            shutil.rmtree(scratch, ignore_errors=True)
        except NameError:
            pass
        sh(["git", "-C", str(REPO), "apply", "-R", "--whitespace=nowarn", str(patch)])
        sh(["git", "-C", str(REPO), "checkout", "--", "."])
        if not repo_clean():
            print("WARNING: /repo not clean after revert:", sh(["git", "-C", str(REPO), "status", "--porcelain"])[1])
    meta.setdefault("evaluation", {})
    meta["evaluation"].update({k: v for k, v in res.items() if k != "checks"})
    meta["evaluation"].setdefault("checks", {}).update(res["checks"])
    (d / "meta.json").write_text(json.dumps(meta, indent=1))
    return res


def table():
    rows = []
    for d in sorted(SEEDED.iterdir()):
        mf = d / "meta.json"
        if not mf.exists():
            continue
        m = json.loads(mf.read_text())
        ev = m.get("evaluation", {})
        caught = [c for c, r in ev.get("checks", {}).items() if r.get("exit") == 1]
        missed = [c for c, r in ev.get("checks", {}).items() if r.get("exit") == 0]
        rows.append(f"| {d.name} | {m.get('property')} | {m.get('summary', '')[:90].replace('|', '/')} | {ev.get('tests', {}).get('passed', '?')} | {', '.join(caught) or '-'} | {', '.join(missed) or '-'} |")
    print("| seeded change | property | what it does | tests passed with it | caught by | run but silent |")
    print("|---|---|---|---|---|---|")
    print("\n".join(rows))


def main(argv):
    if argv[0] == "table":
        return table()
    if argv[0] == "evalall":
        # regression over every kept seeded change: each must still be reported by the check of the property it targets
        bad = []
        for d in sorted(SEEDED.iterdir()):
            if not (d / "meta.json").exists():
                continue
            meta = json.loads((d / "meta.json").read_text())
            prop = meta["property"]
            if "--missing" in argv and "evaluation" in meta:
                continue
            r = evaluate(d.name, [prop], "quick")
            if r["checks"][prop]["exit"] != 1 or r["tests"]["passed"] < 316:
                bad.append(d.name)
        print("NOT CAUGHT (or tests broken):", bad)
        return
    if argv[0] == "collect":
        # collect <worktree> <new id> <property> <summary> <needs_to_manifest>: take the uncommitted diff + demo of a sub-agent's worktree
        wt, sid, prop, summary, needs = argv[1:6]
        d = SEEDED / sid
        d.mkdir(parents=True, exist_ok=False)
        rc, diff = sh(["git", "-C", wt, "diff"])
        (d / "patch.diff").write_text(diff)
        rc, names = sh(["git", "-C", wt, "diff", "--name-only"])
        demos = [p for p in Path(wt).iterdir() if p.name.startswith("demo") and p.suffix == ".py"]
        for p in demos[:1]:
            (d / p.name).write_text(p.read_text())
        (d / "meta.json").write_text(json.dumps({"property": prop, "summary": summary, "needs_to_manifest": needs,
                                                 "origin": "independent sub-agent given only the property text and a scratch worktree",
                                                 "files_changed": [n for n in names.split("\n") if n]}, indent=1))
        print("collected", sid, [n for n in names.split("\n") if n], [p.name for p in demos])
        return
    if argv[0] == "eval":
        sid = argv[1]
        tier = "quick"
        checks = None
        for i, a in enumerate(argv):
            if a == "--checks":
                checks = argv[i + 1].split(",")
            if a == "--all":
                checks = ALL
            if a == "--tier":
                tier = argv[i + 1]
        if checks is None:
            checks = [json.loads((SEEDED / sid / "meta.json").read_text())["property"]]
        r = evaluate(sid, checks, tier)
        print(json.dumps({k: v for k, v in r.items() if k != "checks"}, indent=1)[:1500])


if __name__ == "__main__":
    main(sys.argv[1:])
