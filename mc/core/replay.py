"""Replay one recorded violation without the explorer:  ./run replay /verif/replays/<ID>/<case>.json

The payload holds the query (and backend / metadata where relevant).  The query is re-translated from /repo's current
working tree, the package is built alone with the real include layout against the model EDM and run on the recorded
event (or the small domain), and the outcome is printed next to the Python reference.  Exit 1 if the mismatch is
still there, 0 if it is gone.  Payloads of the non-C++ checks (C07 histories, C14/C15 blocks, C16 script runs, C17
cases) carry the history / blocks / argv to re-run by hand with the functions named in the payload's property module.
"""
import json
import sys

from mc.core.pipeline import Case, run_standalone
from mc.edm.events import event_domain
from mc.lang import qgen


def main(path):
    r = json.load(open(path))
    print(json.dumps({k: r[k] for k in r if k not in ("code_excerpt",)}, indent=1, default=str)[:3000])
    q, backend = r.get("query") or r.get("variant"), r.get("backend")
    if r.get("symptom") == "job-configuration":
        from mc.core.translate import translate
        from mc.lang.jobcfg import run_config
        pkg = translate(q, backend)
        out = run_config(pkg.files, backend, r["event_counts"])
        print("job configuration re-run:", out)
        o = out["output"]
        return 0 if out["rc"] == 0 and o is not None and o["processed"] == sum(r["event_counts"]) and o["inputs"] == out["inputs_expected"] and len(out["produced"]) == 1 else 1
    if not q or backend not in qgen.ALPHA:
        print("(no single query to re-run: see the payload above)")
        return 0
    from mc.checks.c01 import classify_event
    evs = event_domain(2, 1)
    ids = [r["event"]] if isinstance(r.get("event"), int) and r["event"] < len(evs) else list(range(0, len(evs), 7))
    md = tuple(qgen.method_metadata(qgen.ALPHA[backend]))
    o = run_standalone(Case(0, backend, q, md), evs, [("s", [i]) for i in ids])
    print("status:", o.status, o.errors[:3], (o.pkg.exc_type, o.pkg.exc_msg) if o.pkg is not None and not o.pkg.ok else "")
    bad = o.status != "ok"
    for j in o.jobs:
        for er in j.events:
            c = classify_event(q, evs[er.event], er)
            print("event", er.event, "end", er.end, er.what[:80], "rows", [x[1] for x in er.rows][:4], "->", "agrees" if c is None or isinstance(c, tuple) else c)
            bad = bad or isinstance(c, dict)
    return 1 if bad else 0


if __name__ == "__main__":
    sys.exit(main(sys.argv[1]))
