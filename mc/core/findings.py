"""M8: known findings.  A finding is matched by a narrow signature, never by property id alone.

known_findings.json:  {"findings": [ {"id":..., "property":..., "status": "known"|"fixed", "what":..., "match": {...}} ]}
A violation candidate is a dict of features; a finding matches iff every key of its `match` equals (or, for list values,
is contained in / for "contains*" keys is a substring of) the candidate's feature.  Fixed entries never match.
"""
import json
from pathlib import Path

VERIF = Path(__file__).resolve().parents[2]
_FILE = VERIF / "known_findings.json"


def load(prop: str):
    if not _FILE.exists():
        return []
    data = json.loads(_FILE.read_text())
    return [f for f in data.get("findings", []) if f.get("property") == prop and f.get("status") == "known"]


def _match_one(match: dict, feat: dict) -> bool:
    for k, want in match.items():
        if k.startswith("contains_all:"):
            field = k.split(":", 1)[1]
            if not all(w in feat.get(field, "") for w in want):
                return False
        elif k.startswith("contains_any:"):
            field = k.split(":", 1)[1]
            if not any(w in feat.get(field, "") for w in want):
                return False
        elif k.startswith("not_contains:"):
            field = k.split(":", 1)[1]
            if any(w in feat.get(field, "") for w in want):
                return False
        elif k.startswith("in:"):
            field = k.split(":", 1)[1]
            if feat.get(field) not in want:
                return False
        elif k.startswith("has:"):
            field = k.split(":", 1)[1]
            if want not in (feat.get(field) or []):
                return False
        else:
            if feat.get(k) != want:
                return False
    return True


def match(findings, feat: dict):
    for f in findings:
        if _match_one(f["match"], feat):
            return f
    return None
