"""Evidence files and the check runner contract (exit status, VIOLATION / KNOWN-FINDING lines, replay artefacts)."""
import json
import os
import sys
import time
from pathlib import Path

VERIF = Path(__file__).resolve().parents[2]
# VERIF_OUT redirects evidence and replays (used when a check is run against a deliberately broken tree - mc.core.seeded -
# so that the evidence under /verif always describes the unchanged tree)
_OUT = Path(os.environ["VERIF_OUT"]) if os.environ.get("VERIF_OUT") else VERIF
EVIDENCE_DIR = _OUT / "evidence"
REPLAY_DIR = _OUT / "replays"


def seed() -> int:
    try:
        return int(os.environ.get("VERIF_SEED", "0"))
    except ValueError:
        return 0


class Report:
    """Collects coverage counters, samples, violations and known findings for one check run."""

    def __init__(self, prop: str, tier: str):
        self.prop = prop
        self.tier = tier
        self.t0 = time.time()
        self.cov = {"states": 0, "transitions": 0, "traces_validated_against_impl": 0, "samples": [], "exhaustive": True}
        self.assumptions = []
        self.violations = []      # (case_id, description, replay payload)
        self.known = {}           # finding id -> [count, example]
        self.notes = []

    def add(self, key, n=1):
        self.cov[key] = self.cov.get(key, 0) + n

    def set(self, key, v):
        self.cov[key] = v

    def sample(self, s, cap=6):
        if len(self.cov["samples"]) < cap:
            self.cov["samples"].append(s)

    def violation(self, case_id: str, desc: str, payload: dict):
        self.violations.append((case_id, desc, payload))

    def known_finding(self, fid: str, what: str, example=None):
        k = self.known.setdefault(fid, [0, what, example])
        k[0] += 1

    def cap_hit(self, what):
        self.cov["exhaustive"] = False
        self.cov.setdefault("caps_hit", []).append(what)

    def finish(self, require=None) -> int:
        """Write evidence + replays, print the contract lines, return the exit status."""
        wall = time.time() - self.t0
        # vacuity guards
        broken = []
        for k, minimum in (require or {}).items():
            if self.cov.get(k, 0) < minimum:
                broken.append(f"vacuity guard: {k}={self.cov.get(k, 0)} < {minimum}")
        # replays
        shown = 0
        paths = []
        rdir = REPLAY_DIR / self.prop
        if rdir.exists():
            import shutil
            shutil.rmtree(rdir, ignore_errors=True)     # replays of earlier runs are stale
        if self.violations:
            rdir.mkdir(parents=True, exist_ok=True)
        for i, (cid, desc, payload) in enumerate(self.violations[:50]):
            safe = "".join(c if c.isalnum() or c in "-_." else "_" for c in cid)[:80] or f"case{i}"
            p = rdir / f"{safe}.json"
            payload = dict(payload)
            payload.update({"property": self.prop, "case": cid, "description": desc})
            p.write_text(json.dumps(payload, indent=1, default=str))
            paths.append(p)
        if os.environ.get("VERIF_DUMP"):
            with open(os.environ["VERIF_DUMP"], "w") as fh:
                for cid, desc, payload in self.violations:
                    fh.write(json.dumps(dict(payload, case=cid), default=str) + "\n")
        self.cov["known_findings_matched"] = {k: v[0] for k, v in self.known.items()}
        ev = {
            "property_id": self.prop, "tier": self.tier, "seed": seed(), "level": "model_checking",
            "coverage": self.cov, "assumptions": self.assumptions, "wall_s": round(wall, 3),
            "violations": len(self.violations),
        }
        if self.notes:
            ev["coverage"]["notes"] = self.notes
        EVIDENCE_DIR.mkdir(parents=True, exist_ok=True)
        (EVIDENCE_DIR / f"{self.prop}.json").write_text(json.dumps(ev, indent=1, default=str))
        for fid, (n, what, ex) in sorted(self.known.items()):
            print(f"KNOWN-FINDING: property={self.prop} {fid}: {what} ({n} cases" + (f"; e.g. {ex}" if ex else "") + ")")
        for (cid, desc, _), p in zip(self.violations, paths):
            if shown < 20:
                print(f"VIOLATION property={self.prop} replay={p}")
                print(f"  {cid}: {desc}"[:600])
                shown += 1
        if len(self.violations) > shown:
            print(f"  ... and {len(self.violations) - shown} more violations")
        c = self.cov
        print(f"[{self.prop} {self.tier}] states={c.get('states')} transitions={c.get('transitions')} "
              f"validated={c.get('traces_validated_against_impl')} violations={len(self.violations)} "
              f"known={sum(v[0] for v in self.known.values())} exhaustive={c.get('exhaustive')} wall={wall:.1f}s")
        if broken:
            for b in broken:
                print(f"CHECK BROKEN property={self.prop}: {b}")
            return 2
        return 1 if self.violations else 0
