"""Maintain MANIFEST.json: `python -m mc.core.manifest_tool` regenerates it from the CHECKS table below."""
import json
from pathlib import Path

VERIF = Path(__file__).resolve().parents[2]

NOTE_EDM = ("Trusted base: the model event data model in mc/cxx/include (stand-ins for AnalysisBase / CMSSW / TTree written from the "
            "include paths, types and idioms the repository itself names), g++ 12, CPython as the reference LINQ runtime. "
            "Bounds (operator budget, leaf deviations, event domain) are those reported in the evidence file.")

CHECKS = {
    "C01": dict(
        text="Every well-typed query of the LINQ grammar up to an operator budget (exhaustive skeletons + bounded leaf deviations), on all three "
             "backends, is translated by the real translator, the rendered C++ is compiled against a model EDM and executed on every event of an "
             "exhaustive small event domain; rows and values must equal the query text evaluated by CPython. Exhaustive within the stated bounds, nothing sampled.",
        design="DESIGN.md section 3 C01", technique="explicit-state enumeration of the query grammar's derivation graph x exhaustive event domain, reference-model comparison on every execution",
        note=NOTE_EDM),
}


def main():
    props = [json.loads(l) for l in (VERIF / "properties.jsonl").read_text().splitlines() if l.strip()]
    checks = []
    for pid, c in CHECKS.items():
        checks.append({
            "property_id": pid,
            "quick_cmd": f"./run {pid} quick",
            "thorough_cmd": f"./run {pid} thorough",
            "evidence_file": f"/verif/evidence/{pid}.json",
            "replay_cmd_template": "./run replay {path}",
            "engine": "mc",
            "level_claimed": {"category": "model_checking", "text": c["text"], "design_ref": c["design"]},
            "level_note": c["note"],
            "technique": c["technique"],
        })
    m = {
        "version": 1,
        "setup_cmd": "/venv/bin/python -m compileall -q mc && ./run selftest",
        "hooks": {"guard": "FUNC_ADL_XAOD_VERIF", "enable": "no hooks are needed: checks import /repo's working tree through /venv's editable install",
                  "baseline_off_cmd": "cd /repo && /venv/bin/python -m pytest -ra -q -p no:cacheprovider --timeout=900 --continue-on-collection-errors",
                  "source_commits": [], "add_only": True},
        "engines": [{"name": "mc", "path": "/verif/mc", "serves_properties": sorted(CHECKS), "kind_free_text":
                     "hand-written explicit-state / stateless bounded exhaustive explorer driving the real translator, the compiled generated C++, the real runner.sh and LocalDataset"}],
        "checks": checks,
        "notes": "Bounded exhaustive exploration (model checking) of the real translator / generated code / scripts; see DESIGN.md. Genuine defects: known_findings.json.",
        "not_applicable": [{"property_id": p["id"], "reason": "check under construction in this session (design in DESIGN.md section 3); not yet claimed"}
                           for p in props if p["id"] not in CHECKS],
    }
    (VERIF / "MANIFEST.json").write_text(json.dumps(m, indent=1))


if __name__ == "__main__":
    main()
