"""Maintain MANIFEST.json: `python -m mc.core.manifest_tool` regenerates it from the CHECKS table below."""
import json
from pathlib import Path

VERIF = Path(__file__).resolve().parents[2]

NOTE_EDM = ("Trusted base: the model event data model in mc/cxx/include (stand-ins for AnalysisBase / CMSSW / TTree written from the "
            "include paths, types and idioms the repository itself names), g++ 12, CPython as the reference LINQ runtime. "
            "Bounds (operator budget, leaf deviations, event domain) are those reported in the evidence file.")

CHECKS = {
    "C01": dict(
        text="Every well-typed query of the LINQ grammar up to an operator budget (exhaustive skeletons + bounded leaf deviations), on all three "
             "backends, is translated by the real translator, the rendered C++ is compiled against a model EDM and executed on every event of an "
             "exhaustive small event domain; rows and values must equal the query text evaluated by CPython. Exhaustive within the stated bounds, nothing sampled.",
        design="DESIGN.md section 3 C01", technique="explicit-state enumeration of the query grammar's derivation graph x exhaustive event domain, reference-model comparison on every execution",
        note=NOTE_EDM),
    "C07": dict(
        text="Explicit-state BFS in which the real process is the state machine: a state is an event history (new executor / attach extended "
             "metadata / translate menu query q on live executor i, where the menu holds succeeding queries and queries failing at each stage that "
             "carry every kind of state-bearing metadata) replayed in a fork of a pristine interpreter. On every transition the normalised package "
             "or exception must equal the one a fresh process produces. All histories up to the depth bound are expanded; the canonical state hash "
             "(all module globals, class attributes, mutable defaults, executor fields) is only used to count states and, in the thorough tier, to deduplicate.",
        design="DESIGN.md section 3 C07", technique="explicit-state BFS over event histories on the live interpreter (fork per history), invariant evaluated on every transition",
        note="Trusted base: os.fork snapshot semantics, the menu of queries (each verified to succeed/fail as intended in a pristine process), name normalisation "
             "(mc/lang/norm.py). Depth 4 histories / 2 live executors quick, depth 5 / 3 executors thorough."),
    "C14": dict(
        text="Every subset of the seven inject_code fields, every template-special line text in every field, and every ordered pair (thorough: triple) "
             "of blocks from a menu of relations (distinct, identical duplicate, conflicting duplicate, reordered duplicate, unknown field, empty) at every "
             "chain placement is rendered by the real executor; a structural region parser checks each line appears exactly once, in order, in its documented "
             "region and nowhere else, or that ValueError is raised exactly when an independent decision says it is due.",
        design="DESIGN.md section 3 C14", technique="exhaustive enumeration of block multisets x arrival orders x placements on the real executor, region-parser oracle",
        note="Trusted base: the region parser's anchors in the r21/r5/r7 templates; injected lines carry unique tags. CMS backends: body_includes only (as documented)."),
    "C15": dict(
        text="Every arrival sequence of <= 3 (thorough <= 4) job-script blocks over 3 names x 2 script variants x all 16 depends_on subsets (incl. self loops, "
             "cycles, missing targets, duplicates before/after their dependencies) is fed to the real generate_script_block; an independent certificate checker "
             "decides whether an error is due and otherwise verifies once-each / contiguous / dependency-order of the emitted lines. A bounded subset goes "
             "through the real ATLAS executor into ATestRun_eljob.py.",
        design="DESIGN.md section 3 C15", technique="exhaustive enumeration of all block sequences within the bound (8.9e5 quick, 8.6e7 thorough) against a certificate-checking oracle",
        note="Trusted base: the certificate checker in mc/checks/c15.py (Kahn cycle test + order verification). No sampling; name symmetry is not used."),
}


def main():
    props = [json.loads(l) for l in (VERIF / "properties.jsonl").read_text().splitlines() if l.strip()]
    checks = []
    for pid, c in CHECKS.items():
        checks.append({
            "property_id": pid,
            "quick_cmd": f"./run {pid} quick",
            "thorough_cmd": f"./run {pid} thorough",
            "evidence_file": f"/verif/evidence/{pid}.json",
            "replay_cmd_template": "./run replay {path}",
            "engine": "mc",
            "level_claimed": {"category": "model_checking", "text": c["text"], "design_ref": c["design"]},
            "level_note": c["note"],
            "technique": c["technique"],
        })
    m = {
        "version": 1,
        "setup_cmd": "/venv/bin/python -m compileall -q mc && ./run selftest",
        "hooks": {"guard": "FUNC_ADL_XAOD_VERIF", "enable": "no hooks are needed: checks import /repo's working tree through /venv's editable install",
                  "baseline_off_cmd": "cd /repo && /venv/bin/python -m pytest -ra -q -p no:cacheprovider --timeout=900 --continue-on-collection-errors",
                  "source_commits": [], "add_only": True},
        "engines": [{"name": "mc", "path": "/verif/mc", "serves_properties": sorted(CHECKS), "kind_free_text":
                     "hand-written explicit-state / stateless bounded exhaustive explorer driving the real translator, the compiled generated C++, the real runner.sh and LocalDataset"}],
        "checks": checks,
        "notes": "Bounded exhaustive exploration (model checking) of the real translator / generated code / scripts; see DESIGN.md. Genuine defects: known_findings.json.",
        "not_applicable": [{"property_id": p["id"], "reason": "check under construction in this session (design in DESIGN.md section 3); not yet claimed"}
                           for p in props if p["id"] not in CHECKS],
    }
    (VERIF / "MANIFEST.json").write_text(json.dumps(m, indent=1))


if __name__ == "__main__":
    main()
