"""Maintain MANIFEST.json: `python -m mc.core.manifest_tool` regenerates it from the CHECKS table below."""
import json
from pathlib import Path

VERIF = Path(__file__).resolve().parents[2]

NOTE_EDM = ("Trusted base: the model event data model in mc/cxx/include (stand-ins for AnalysisBase / CMSSW / TTree written from the "
            "include paths, types and idioms the repository itself names), g++ 12, CPython as the reference LINQ runtime. "
            "Bounds (operator budget, leaf deviations, event domain) are those reported in the evidence file.")

CHECKS = {
    "C01": dict(
        text="Every well-typed query of the LINQ grammar up to an operator budget (exhaustive skeletons + bounded leaf deviations), on all three "
             "backends, is translated by the real translator, the rendered C++ is compiled against a model EDM and executed on every event of an "
             "exhaustive small event domain; rows and values must equal the query text evaluated by CPython. Exhaustive within the stated bounds, nothing sampled.",
        design="DESIGN.md section 3 C01", technique="explicit-state enumeration of the query grammar's derivation graph x exhaustive event domain, reference-model comparison on every execution",
        note=NOTE_EDM),
    "C02": dict(
        text="Every package the real translator returns for the grammar enumeration (operator budget 3 with leaf deviations on ATLAS, budget 3 on both CMS backends; "
             "thorough budget 4), for a menu of further shapes (explicit trees, dicts, metadata, injected code and functions, plug-ins, job scripts) and for a name-uniqueness "
             "sweep (column names {a, a1, a12, b} ten positions apart in 12-column results x every phase 0..29 (thorough 0..119) of the global name counter) is checked: "
             "every file named in the returned info exists and nothing else is written, the entry script is executable, no template directive survives, the C++ compiles "
             "against the model EDM (the compiler judges scope, declaration-before-use and types), a scope walk finds every translator-introduced identifier declared "
             "exactly once with no textual use before it, members are distinct, and the executed job neither crashes nor prints an uninitialised pattern value.",
        design="DESIGN.md section 3 C02", technique="exhaustive enumeration of accepted programs x backends plus (column names, counter phase) sweep; compiler + scope walker as oracle",
        note=NOTE_EDM + " The spliced batch build cannot detect a missing #include (all stub headers exist); include content is checked by C06 / C12 / C14."),
    "C03": dict(
        text="All terminal forms (bare value, 2- and 3-tuples, lists, dicts, explicit ResultTTree with names from a pool in all orders, every wrong label count, "
             "1-D and 2-D sequences, mixed tuples/dicts) x a 17-entry column-expression menu that hits every typing rule, on all three backends, are translated, "
             "compiled and run: the (branch name, C++ type) list recorded by the stand-in TTree::Branch at booking must have the expected names in order and "
             "element types, every branch its own storage, every column its own value through the bound address, the descriptor's tree name must be the tree booked "
             "and filled, its file name the one the rendered job configuration writes, and a label/column count mismatch must raise.",
        design="DESIGN.md section 3 C03", technique="exhaustive enumeration of terminal forms x column kinds, booking observed in the executed generated code",
        note=NOTE_EDM),
    "C04": dict(
        text="A partiality grammar is enumerated completely: 8 event-level and 6 element-level partial operations (First of a sequence / a filtered sequence / a "
             "projection, indexing at 0-2, link dereference, nested partial operations) x every placement (bare, next to a total column, right operand of and / or-not, "
             "swapped, either arm of a conditional, behind an event-level or element-level Where, inside a Where predicate, under Sum/Count) x every guard of a menu "
             "(the sufficient guard, insufficient ones, a guard on another sequence, trivially true and contradictory guards); thorough adds all ordered pairs of partial "
             "operations under two guards. Each program runs on all 63 events of the exhaustive domain (empty and short collections, null links); per event rows vs "
             "loud failure must agree with the Python reference, a null dereference the query never performs is a violation.",
        design="DESIGN.md section 3 C04", technique="exhaustive enumeration of (partial operation, placement, guard) programs x exhaustive event domain, executed generated code vs reference",
        note=NOTE_EDM + " Null links are poisoned Refs (observed, never UB); a crash (signal) of the generated code is reported as a violation."),
    "C05": dict(
        text="For every program of the grammar enumeration (C01's quick bounds, three backends), of the partiality set (C04) and of a set whose values come from opaque and "
             "collection-returning injected C++ functions (about 5000 programs), the compiled job is run over every history of a representative 8-event set: each event "
             "alone in a fresh job, all 64 ordered pairs incl. (a,a), all 24 permutations of a 4-subset, the full list forwards and backwards (thorough: all 512 ordered "
             "triples and one leaf deviation per program). Reference-free differential oracle: at every position the rows (and outcome) for event b must equal those of b "
             "in a fresh job.",
        design="DESIGN.md section 3 C05", technique="exhaustive enumeration of (program, event history) pairs on the compiled generated code; differential oracle per history position",
        note=NOTE_EDM + " A faulting event ends its job, histories are cut there. Absolute values are C01's business."),
    "C06": dict(
        text="Product enumeration over every built-in collection of every backend (6+1 ATLAS, 5 CMS AOD, 3 miniAOD) x banks {A, B, absent} x position templates "
             "(count, values, rows, same collection twice with the same / different banks, behind a Where, every ordered pair of different collections side by side and "
             "nested, singleton as value / with a collection / absent / misused as a sequence), metadata-declared collections (new, overriding a built-in, next to a "
             "built-in, singleton, declared for each other backend, used and unused), malformed declarations (each required key missing, unknown key, element_type vs "
             "contains_collection mismatch) and malformed calls (0 / 2 / non-string / computed arguments). Oracle: (container type, bank) requests logged by the model "
             "store, loud failure and no row on a missing bank, one consumes<> token per use on miniAOD, each header / link library exactly once, values.",
        design="DESIGN.md section 3 C06", technique="exhaustive product enumeration of collections x banks x positions x declarations, request log of the executed generated code",
        note=NOTE_EDM + " Expected container types / headers / libraries come from an independent table in mc/checks/c06.py."),
    "C07": dict(
        text="Explicit-state BFS in which the real process is the state machine: a state is an event history (new executor / attach extended "
             "metadata / translate menu query q on live executor i, where the menu holds succeeding queries and queries failing at each stage that "
             "carry every kind of state-bearing metadata) replayed in a fork of a pristine interpreter. On every transition the normalised package "
             "or exception must equal the one a fresh process produces. All histories up to the depth bound are expanded; the canonical state hash "
             "(all module globals, class attributes, mutable defaults, executor fields) is only used to count states and, in the thorough tier, to deduplicate.",
        design="DESIGN.md section 3 C07", technique="explicit-state BFS over event histories on the live interpreter (fork per history), invariant evaluated on every transition",
        note="Trusted base: os.fork snapshot semantics, the menu of queries (each verified to succeed/fail as intended in a pristine process), name normalisation "
             "(mc/lang/norm.py). Depth 4 histories / 2 live executors quick, depth 5 / 3 executors thorough."),
    "C08": dict(
        text="For every program of the query grammar up to the operator budget, the complete variant set is generated by AST rewriting and translated: "
             "qastle text round trip, every capture-free assignment of lambda parameter names from a pool (shadowing included whenever the binding structure is "
             "unchanged), the MetaData calls attached at each position of the chain and inside a lambda, each adjacent Select.Select / Where.Where pair fused. "
             "All rendered files must equal the base program's after renumbering generated names, or the same exception must be raised.",
        design="DESIGN.md section 3 C08", technique="exhaustive enumeration of (program, variant) pairs within bounds on the real translator; differential oracle on normalised packages",
        note="Trusted base: the variant generators in mc/lang/variants.py (binding structure re-checked after every renaming), qastle, the name normaliser. "
             "Fusion variants are limited to linear uses of the inner parameter (duplicating a collection expression is a different query)."),
    "C09": dict(
        text="Every host program of the grammar up to the operator budget x every expression position x every construct of an unsupported-construct menu "
             "that fits the position's kind (unsupported binary/unary operators, chained and identity/membership comparisons, value used as sequence, sequence "
             "arithmetic / slicing, unimplemented Aggregate forms, None/bytes/complex constants, keyword arguments, templated getAttribute on each receiver shape) "
             "plus whole-query cases (raw object/event output, dict **, wrong label counts, wrong argument counts, unknown/malformed metadata incl. every required key "
             "missing) is handed to the real translator: it must raise; a returned package is a violation and is kept with the emitted code.",
        design="DESIGN.md section 3 C09", technique="exhaustive enumeration of (host, position, construct) grafts within bounds on the real translator; fail-closed oracle",
        note="Trusted base: the graft generator (mc/lang/graft.py) and its syntactic kind inference; any exception type counts as a refusal."),
    "C10": dict(
        text="The declaration space is enumerated on all three backends: all chains j.a().t() with object pointer depth 0-2 x deref_count absent/0/1/2 x terminal "
             "return types (double undeclared and declared, int, float, bool) used as column, in arithmetic, as method argument, twice, in a Where and as a vector; "
             "two different deref counts on one type; chains j.a().b().t() over depth x deref x depth x deref (half of the 144 combinations quick, all thorough); "
             "collection-returning methods (default vector, custom collection by value and by pointer) of float / int / object / object-pointer elements under "
             "Select, Count, index, First, SelectMany, Sum; tree_type; enums in namespaces of depth 1-2 as compare operand, argument, Where and output. The model "
             "classes are generated from the very same declaration (real pointers to real storage, one wrapper struct with operator*/operator-> per deref level), so "
             "g++ judges every '.', '->', '(*x)->' and column type and the run judges values; an undeclared method must give a double column and a logged warning.",
        design="DESIGN.md section 3 C10", technique="exhaustive enumeration of declared signatures x use sites; generated code compiled and run against model classes generated from the same declarations",
        note=NOTE_EDM + " Pointer-to-pointer collections are outside the statement ('by value or pointer') and not generated."),
    "C11": dict(
        text="Specifications x call sites, exhaustively over small pools: all 56 ordered pairs of distinct parameter names from a pool chosen to collide with the code's "
             "own identifiers, generated names and the arguments' text (x, y, pt, eta, j, i_obj, result2, obj) x code templates (whole-word uses next to longer identifiers "
             "containing the name, repeated uses, multi-line, parenthesised) x default/custom result names x argument pairs whose C++ text contains the other parameter's "
             "name; 1-, 3- and 0-parameter functions, bool/int results, collection-returning functions under Select/Count/Sum/SelectMany/First/index/Where, methods bound "
             "to the receiver, 15 call positions (arithmetic, Where, nested in own argument, twice, inside another injected call, conditional, nested lambda), wrong arity "
             "and wrong call style for functions, methods and the built-ins DeltaR / isNonnull / getAttributeFloat / getAttributeVectorFloat. Each spec has a Python twin: "
             "the compiled job's values must equal it exactly; bad calls must raise; result variable, block isolation and includes are checked structurally.",
        design="DESIGN.md section 3 C11", technique="exhaustive enumeration of (specification, call site) pairs within the pools; executed generated code vs the specification's Python twin",
        note=NOTE_EDM + " Parameters that occur after '.'/'->' in the code are whole words and substituted by design; such templates are not generated."),
    "C12": dict(
        text="The complete function table (README list, every key of functions_to_replace, built-in abs and pow: 55 names) x six contexts (bare column, f(x)+1, "
             "2*f(x), f(x) > 0, nested in another function, applied to an arithmetic argument) is translated, compiled and run on a 12-point argument grid; "
             "each value must equal, to 1e-14, the C library function of the same name called through ctypes. Presence of <cmath> in the rendered include area is "
             "checked structurally. Thorough repeats the table on the CMS backends.",
        design="DESIGN.md section 3 C12", technique="exhaustive enumeration of the finite function table x contexts x argument grid, executed generated code vs libm by name",
        note=NOTE_EDM + " Reference = libm through ctypes (ln=log, abs=fabs, nexttoward=nextafter); NaN references are skipped; nan() is only checked for acceptance."),
    "C13": dict(
        text="The complete operator table is enumerated: six binary operators x all 25 ordered operand-kind pairs (int literal, int method, float method, double "
             "method, bool), unary +/-/not, six comparisons x 25 pairs, Sum/Min/Max/Count/Aggregate with int and double seeds over each element kind, conditionals "
             "with 25 arm-kind pairs, unary-next-to-binary forms, and (thorough, all three backends) every two-operator expression in left/right/unparenthesised form. "
             "Every cell is translated, compiled against the model EDM and run on a grid of positive dyadic values: the value must equal CPython's exactly "
             "(float32 operands of / ** %: float epsilon) and the booked column type must follow the statement's rules.",
        design="DESIGN.md section 3 C13", technique="exhaustive enumeration of the finite operator x operand-kind table, executed generated code vs CPython on every cell",
        note=NOTE_EDM + " Negative operands of % and zero divisors are outside the statement and skipped by the reference."),
    "C14": dict(
        text="Every subset of the seven inject_code fields, every template-special line text in every field, and every ordered pair (thorough: triple) "
             "of blocks from a menu of relations (distinct, identical duplicate, conflicting duplicate, reordered duplicate, unknown field, empty) at every "
             "chain placement is rendered by the real executor; a structural region parser checks each line appears exactly once, in order, in its documented "
             "region and nowhere else, or that ValueError is raised exactly when an independent decision says it is due.",
        design="DESIGN.md section 3 C14", technique="exhaustive enumeration of block multisets x arrival orders x placements on the real executor, region-parser oracle",
        note="Trusted base: the region parser's anchors in the r21/r5/r7 templates; injected lines carry unique tags. CMS backends: body_includes only (as documented)."),
    "C15": dict(
        text="Every arrival sequence of <= 3 (thorough <= 4) job-script blocks over 3 names x 2 script variants x all 16 depends_on subsets (incl. self loops, "
             "cycles, missing targets, duplicates before/after their dependencies) is fed to the real generate_script_block; an independent certificate checker "
             "decides whether an error is due and otherwise verifies once-each / contiguous / dependency-order of the emitted lines. A bounded subset goes "
             "through the real ATLAS executor into ATestRun_eljob.py.",
        design="DESIGN.md section 3 C15", technique="exhaustive enumeration of all block sequences within the bound (8.9e5 quick, 8.6e7 thorough) against a certificate-checking oracle",
        note="Trusted base: the certificate checker in mc/checks/c15.py (Kahn cycle test + order verification). No sampling; name symmetry is not used."),
    "C16": dict(
        text="Each of the three rendered runner.sh scripts is executed unmodified by bash inside a private mount namespace + chroot with stub tools. "
             "Explored exhaustively: 17 invocations of the flag alphabet (incl. unknown flag, missing option argument, stray argument, joined flags) after every "
             "history of <= 1 (thorough <= 2, plus all 3-step histories) earlier invocations (build-once/run-many, run without build, ...), and for the faulted "
             "invocation every single crash point: the fault-free run records its N external commands and sourced setup files, then N+s re-runs of the whole history "
             "fail exactly the i-th. Oracle: exit codes 10 / 1 before any command, -c never runs the job, -r never builds, -d/-o respected, exit 0 implies this run's "
             "output (nonce + inputs) at the destination, any failed step implies non-zero exit and no fresh output.",
        design="DESIGN.md section 3 C16", technique="exhaustive enumeration of invocation histories x crash-point (single-fault) enumeration on the real scripts in a hermetic sandbox",
        note="Trusted base: bash, coreutils, the stub build tools (fail before effect, minimal faithful effect), the stand-in job frameworks and ROOT classes in mc/standin/jobfw, unshare/chroot. One fault per history; dirname faults excluded (not a listed step)."),
    "C17": dict(
        text="The real xAODDataset / CMSRun1AODDataset / CMSRun2miniAODDataset .value() is run, with a stand-in python_on_whales on sys.path, over the full product of "
             "8 file-list shapes (Path/str, several files, different directories, missing, empty, order) x default/custom image x docker metadata absent or at each "
             "of three chain positions x default/given output directory x container behaviours (0-2 stdout/stderr chunks then success, success without result file, "
             "DockerException at the call, before the first chunk and after every chunk) x temp-module state, each case in its own forked process. A spec table written "
             "from the property statement judges the arguments docker.run received, filelist.txt at container start, errors before any container, the returned "
             "path and content, error propagation and leftover temporary directories.",
        design="DESIGN.md section 3 C17", technique="exhaustive product enumeration of configurations x fault points (container failure at every output chunk) on the real LocalDataset",
        note="Trusted base: the stand-in python_on_whales (mc/standin) mirrors only docker.run(...)-> generator of (stream, bytes) and DockerException; installed nowhere, "
             "put on sys.path by the check only."),
    "C18": dict(
        text="Literal space x position, exhaustively: 12 integers around the 32/64-bit edges, 17 floats in every notation Python prints (incl. -0.0, subnormal, max, inf), "
             "booleans, and ALL 183 (thorough: 2380) strings of length <= 2 (<= 3) over an alphabet with quote, apostrophe, backslash, percent, braces, newline, "
             "non-ASCII and semicolon; positions: echoed method argument, overload-kind probe, comparison operand, bare column, arithmetic operand, bank name, attribute "
             "name, tree name, column name, dict key. The compiled job must observe the same value (bit pattern for floats), bytes and kind, or translation must have raised.",
        design="DESIGN.md section 3 C18", technique="exhaustive enumeration of the literal alphabet x positions, executed generated code echoing the literal back",
        note=NOTE_EDM + " nan cannot be written as a Python literal and is not generated."),
}


# behaviour added to the checks after the first version (see DESIGN.md sections 9 and 12)
ADDED = {
    "C01": "Hand-enumerated families close gaps of the grammar: calls WITH arguments whose receiver and arguments live at different loop depths, every expression form "
           "mixing an outer and an inner loop variable, explicit Aggregate(init, lambda) with computed initial values and closures, Count over sequences of sequences, "
           "two partial values in one row, nested flattenings, tuples / lists / dictionaries carried between Selects - each a full product of small menus under 8-10 consumers.",
    "C02": "The argument-scope family and injected constructor / initialize lines with repeated texts are included.",
    "C03": "Columns typed by the backend's own default method table are also checked after earlier (successful, failed) translations on the same executor.",
    "C04": "Also: negative and computed indices (a negative index may give Python's from-the-end value or fail loudly, never anything else), three-operand guards, "
           "and a sequence shared between guard and guarded operation through a lambda parameter.",
    "C05": "The event set also holds events that LACK a collection (the job must fail there, not carry on with what it had filled).",
    "C07": "The event alphabet also has again(i, q) - the caller hands the very same ast object to the library once more - and apply(i, q) - a translation that is started "
           "(client-side passes) and never written.",
    "C08": "Also: and / or chains of 3-5 operands (flat and nested either way), metadata whose sequence values are tuples vs lists, samples of the hand-enumerated families with "
           "all variants, and every program of those families and of C18's literal x position grid through the qastle wire.",
    "C09": "Also: every must-refuse whole-query case after an earlier query on the same / another executor declared the missing name; lambda arity; surplus / missing "
           "arguments of built-in, declared and plug-in functions; a wrong-kind value for every key of every metadata type; constructs at positions nothing downstream uses are "
           "classified by a semantic dead-position test.",
    "C10": "Also: declarations overriding a backend default (by value, pointer, pointer to pointer), const-qualified declarations, identical double declarations.",
    "C11": "Also: parameter-less and two-parameter methods, a parameter-less function, and earlier queries on the same executor that supplied other code under the same name.",
    "C12": "Also: a float-typed (32-bit) operand on either side of the function result, and the function of a First() value at event level.",
    "C13": "Also: aggregates whose initial value is another aggregate's (integer) result.",
    "C14": "Also: earlier queries with blocks on the same executor (applied only / translated / failed), and include paths equal up to letter case.",
    "C17": "Also: a container that fails after it has put its result into /results, and earlier executions on another / on the very same dataset object (with and without docker metadata).",
}
ADDED2 = {
    "C01": "Later additions: compound computed Aggregate seeds, one collection bound to a lambda parameter and used at several loop depths, list-literal rows whose columns live "
           "in different blocks, property references on data members; and the rendered job configuration of every backend is EXECUTED against stand-in job frameworks "
           "(mc/standin/jobfw) on inputs of 0-100 events in 1-3 files: every event of every listed file must be handed to the generated algorithm.",
    "C02": "Later additions: sequence parameters used at two loop depths, property references, C10's enum programs (namespaces one to four deep).",
    "C03": "Later additions: one value object supplying two or three columns; integer arithmetic with a literal beyond 32 bits (wide column or refusal).",
    "C04": "End to end: the rendered runner.sh runs in the C16 sandbox with the analysis job failing (before and after it has written output) at each of its occurrences in "
           "seven (thorough eleven) build / re-run histories per backend - the script must exit non-zero and deliver nothing for that run.",
    "C06": "Later additions: one collection call bound to a lambda parameter and used at two loop depths (still one use: one token on miniAOD).",
    "C07": "A docker query on an executor with an attached extended-metadata handler must see the handler unless a translation has completed on that executor since.",
    "C08": "Also: the same Python ast with every group of equal sub-expressions shared as ONE node object.",
    "C09": "Later additions: a keyword argument on every call of every host program; wrong label counts that repeated names collapse to the right number; Aggregate seeded with "
           "a pointer-typed value.",
    "C10": "Later additions: const in front of type names that start with c, o, n, s, t (and namespace-qualified ones); enums in namespaces up to four deep.",
    "C11": "Later additions: arguments that are First() / index / aggregate values with the result used at the outer level; methods called on First(), indexed and fused "
           "receivers; a function the query supplies under a documented math function's name.",
    "C12": "Later additions: the later plain query after an earlier query declared its own function of that name; cmath in the translation unit on all three backends next to "
           "inject_code blocks naming the header in any field.",
    "C14": "Later additions: MetaData attached to the event inside the final lambda and inside a tuple element that is later discarded.",
    "C15": "Later additions (through the executor): blocks with an empty script as dependencies, in chains and as conflicting duplicates.",
    "C16": "The job step EXECUTES the rendered ATestRun_eljob.py / analyzer_cfg.py against stand-in EventLoop / cmsRun frameworks and the conversion step runs the rendered "
           "copy_root_tree.C compiled against stand-in ROOT classes (mc/standin/jobfw); job tools and conversion can also fail AFTER writing their output; input paths with blanks.",
    "C17": "Later additions: registry-with-port image names and a tag given without an image.",
    "C18": "The string alphabet also holds / * # U+2028 U+0085 (comment openers, preprocessor, Unicode line boundaries).",
}
ADDED3 = {
    "C01": "Also: First() of a sequence whose elements are sequences, under every consumer; the generated algorithm object lives in storage pre-filled with a loud pattern, "
           "so a branch variable read before it is written is seen.",
    "C02": "Also: all orders of the three backends translated in ONE process, with a self-consistency oracle (every $DIR/<file> the entry script uses is a file of the "
           "package, the algorithm class is the backend's); a declared tree_type at every nesting depth.",
    "C03": "Also: const-qualified by-value return types, tree names that are not identifiers.",
    "C04": "Also: Range with computed bounds that come out negative / reversed, bool constants in and / or chains, chained comparisons as guards (refusal allowed, laziness "
           "demanded if accepted).",
    "C07": "Also the events wrfail(i, q) - the passes succeed, the write hits an I/O error - and menu queries that call a documented math function plainly, bring their own "
           "function of that name, or are nested deeper than the interpreter's recursion limit (the limit is part of the canonical state).",
    "C08": "Also: lambda parameters named like things the query declares (namespace, enum, function), and the captured-constant programs of C18 through the qastle wire.",
    "C09": "Also: Aggregate with a third / fourth argument, collection declarations for every other backend (incl. the other CMS tier).",
    "C10": "Also: data members (no call) declared with a deref count behind every object indirection; class-template types spelled with blanks next to < > ,.",
    "C11": "Also: collections of pointers to objects, includes judged on the whole translation unit next to inject_code blocks naming the same file.",
    "C12": "Also: arguments on the edge of a function's domain (log(0), sqrt(-4), exp(1000): the job goes on and writes -inf / nan / inf), a declared method named like a "
           "documented function next to the plain call, and no value-changing compiler flag in any build file of the package.",
    "C13": "Also: doubled unary operators, update lambdas wider than seed and elements, every two-operator expression on two operand-kind triples in the quick tier.",
    "C14": "Also: metadata of another kind under the block's name, content-less same-name blocks, unknown fields holding an empty list.",
    "C15": "Also: scripts that are prefixes / extensions of one another and the empty script (a second exhaustive space over two names), non-ASCII lines.",
    "C16": "Also: the script started through a relative path and as an argument of bash; URL inputs.",
    "C17": "Also: symlinked inputs, three and four docker blocks with the wanted image at both ends, chatty containers (200 000 characters before success / failure).",
    "C18": "Also: numbers held in ONE constant node (what func_adl makes of a captured python variable), -0.0 by bit pattern, '?', two bank names in one query; string "
           "positions on all three backends in the quick tier.",
}
ADDED4 = {
    "C01": "Also: a bound sequence used in a conditional's test, inside an arm and once more at event level (every order, three head sequences).",
    "C03": "Also: column and tree names outside ASCII with every kind of neighbour after the non-ASCII character.",
    "C05": "Also the conditional sub-family of the sequence-parameter programs (what an arm computed stays in the arm).",
    "C06": "Also: the same collection declaration attached two and three times to one query.",
    "C07": "Also two menu queries whose arithmetic meets value types outside int / float / double (accepted or refused - the same after every history).",
    "C08": "Also: lambda parameters named like a documented math function the query calls.",
    "C10": "Also: an earlier query of the process (same executor object, or an executor of its own) that declared the same (type, method) differently or declared what this "
           "query leaves undeclared.",
    "C11": "Also: a sequence of injected-call results bound to a lambda parameter and consumed by two or three loops (functions, methods, the built-in attribute getter).",
    "C12": "Also: the function's result as an argument of a declared C++ function and of the built-in DeltaR.",
    "C13": "Also: operator cells after an earlier query declared the value methods with other types; a backend-default bool method declared int by the query, in arithmetic.",
}
ADDED5 = {
    "C02": "Also: seeded aggregates (computed, negative, compound seeds) bare and consumed by a comparison, an event filter, a function, a conditional's test.",
    "C03": "Also: conditionals whose test is a literal True / False.",
    "C05": "Also: explicit column names that repeat (vector, 2-D and scalar columns).",
    "C06": "Also: own and foreign-backend declarations of one name in three orders.",
    "C09": "Also: integer constants beyond every 64-bit C++ integer at every value position.",
    "C10": "Also: collection types declared by their template spelling, incl. pointer-typed template arguments.",
    "C11": "Also: a code template without blanks (every parameter occurrence touches operator characters).",
    "C12": "Also: float / int argument mixes of the multi-argument functions.",
    "C13": "Also: aggregates whose update ignores the accumulator, with a fractional / negative default.",
    "C14": "Also: the same query object translated two and three times by fresh executors.",
    "C15": "Also: dependencies given as tuples and as list objects shared between blocks.",
    "C16": "Also: persistent faults of the delivery tools (the k-th and every later use fails); a failed attempt that is retried successfully is not a failed step.",
    "C17": "Also: input file names with blanks, parentheses, '#', '&', '~', a non-ASCII letter.",
    "C18": "Also: combining and compatibility characters (U+0301, U+212A) in the string alphabet.",
}
for _k, _v in ADDED5.items():
    ADDED4[_k] = (ADDED4.get(_k, "") + " " + _v).strip()
for _k, _v in ADDED4.items():
    ADDED3[_k] = (ADDED3.get(_k, "") + " " + _v).strip()
for _k, _v in ADDED3.items():
    ADDED2[_k] = (ADDED2.get(_k, "") + " " + _v).strip()
for _k, _v in ADDED2.items():
    ADDED[_k] = (ADDED.get(_k, "") + " " + _v).strip()
for _k, _v in ADDED.items():
    CHECKS[_k]["text"] += " " + _v

def main():
    props = [json.loads(l) for l in (VERIF / "properties.jsonl").read_text().splitlines() if l.strip()]
    checks = []
    for pid, c in CHECKS.items():
        checks.append({
            "property_id": pid,
            "quick_cmd": f"./run {pid} quick",
            "thorough_cmd": f"./run {pid} thorough",
            "evidence_file": f"/verif/evidence/{pid}.json",
            "replay_cmd_template": "./run replay {path}",
            "engine": "mc",
            "level_claimed": {"category": "model_checking", "text": c["text"], "design_ref": c["design"]},
            "level_note": c["note"],
            "technique": c["technique"],
        })
    m = {
        "version": 1,
        "setup_cmd": "/venv/bin/python -m compileall -q mc && ./run selftest",
        "hooks": {"guard": "FUNC_ADL_XAOD_VERIF", "enable": "no hooks are needed: checks import /repo's working tree through /venv's editable install",
                  "baseline_off_cmd": "cd /repo && /venv/bin/python -m pytest -ra -q -p no:cacheprovider --timeout=900 --continue-on-collection-errors",
                  "source_commits": [], "add_only": True},
        "engines": [{"name": "mc", "path": "/verif/mc", "serves_properties": sorted(CHECKS), "kind_free_text":
                     "hand-written explicit-state / stateless bounded exhaustive explorer driving the real translator, the compiled generated C++, the real runner.sh and LocalDataset"}],
        "checks": checks,
        "notes": "Bounded exhaustive exploration (model checking) of the real translator / generated code / scripts; see DESIGN.md. Genuine defects: known_findings.json.",
        "not_applicable": [{"property_id": p["id"], "reason": "check under construction in this session (design in DESIGN.md section 3); not yet claimed"}
                           for p in props if p["id"] not in CHECKS],
    }
    (VERIF / "MANIFEST.json").write_text(json.dumps(m, indent=1))


if __name__ == "__main__":
    main()
