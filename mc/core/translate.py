"""S1: drive the real translator on a query text and capture the rendered package.

A query is Python text in method form over the name `ds`, e.g.
    ds.Select(lambda e: e.Jets('A').Select(lambda j: j.pt()))
optionally wrapped in MetaData(...) calls written in function form:  MetaData(ds, {...}).Select(...)
The same text is what the reference runtime eval()s.
"""
import ast
import io
import logging
import os
import shutil
import sys
import tempfile
from dataclasses import dataclass, field
from pathlib import Path
from typing import Any, Dict, List, Optional

BACKENDS = ("atlas", "cms_aod", "cms_miniaod")

NAME_BASE = 700000


def _executor_class(backend: str):
    if backend == "atlas":
        from func_adl_xAOD.atlas.xaod.executor import atlas_xaod_executor
        return atlas_xaod_executor
    if backend == "cms_aod":
        from func_adl_xAOD.cms.aod.executor import cms_aod_executor
        return cms_aod_executor
    if backend == "cms_miniaod":
        from func_adl_xAOD.cms.miniaod.executor import cms_miniaod_executor
        return cms_miniaod_executor
    raise ValueError(backend)


class _DsReplacer(ast.NodeTransformer):
    def visit_Call(self, n):
        # vm_const(<literal expression>) stands for ONE ast.Constant node holding that value - what func_adl makes of a captured
        # python variable (a negative number then is a Constant, not the UnaryOp the parser produces for the text -1)
        if isinstance(n.func, ast.Name) and n.func.id == "vm_const" and len(n.args) == 1 and not n.keywords:
            return ast.Constant(ast.literal_eval(n.args[0]))
        return self.generic_visit(n)

    def visit_Name(self, n):
        if n.id == "ds":
            return ast.Call(func=ast.Name("EventDataset", ast.Load()), args=[ast.Constant("ds")], keywords=[])
        return n


def parse_query(text: str) -> ast.AST:
    a = ast.parse(text, mode="eval").body
    a = _DsReplacer().visit(a)
    return ast.fix_missing_locations(a)


def reset_library_state():
    "What the test-suite's autouse fixture does, plus harness-owned name counters."
    import func_adl_xAOD.common.cpp_types as ctyp
    import func_adl_xAOD.common.cpp_vars as cv
    ctyp.g_method_type_dict = {}
    ctyp.g_toplevel_ns = {}
    cv.unique_var_index = NAME_BASE
    try:
        import func_adl.ast.function_simplifier as fs
        fs.argument_var_counter = 0
    except Exception:
        pass


@dataclass
class Package:
    ok: bool
    backend: str
    query: str
    files: Dict[str, str] = field(default_factory=dict)
    modes: Dict[str, int] = field(default_factory=dict)
    all_filenames: List[str] = field(default_factory=list)
    main_script: str = ""
    treename: Optional[str] = None
    filename: Optional[str] = None
    exc_type: Optional[str] = None
    exc_msg: Optional[str] = None
    warnings: List[str] = field(default_factory=list)
    listing: List[str] = field(default_factory=list)

    @property
    def source_name(self):
        return "query.cxx" if self.backend == "atlas" else "Analyzer.cc"


class _Capture(logging.Handler):
    def __init__(self):
        super().__init__(level=logging.DEBUG)
        self.records = []

    def emit(self, record):
        self.records.append((record.levelname, record.name, record.getMessage()))


def translate_ast(a: ast.AST, backend: str, query_text: str = "", executor=None, fresh: bool = True,
                  name_base: Optional[int] = None) -> Package:
    """Translate on a fresh library state (unless fresh=False) and return the package or the error."""
    if fresh:
        reset_library_state()
    if name_base is not None:
        import func_adl_xAOD.common.cpp_vars as cv
        cv.unique_var_index = name_base
    cap = _Capture()
    root = logging.getLogger()
    root.addHandler(cap)
    old_level = root.level
    d = Path(tempfile.mkdtemp(prefix="vt_"))
    try:
        exe = executor if executor is not None else _executor_class(backend)()
        a2 = exe.apply_ast_transformations(a)
        info = exe.write_cpp_files(a2, d)
        files, modes = {}, {}
        listing = sorted(p.name for p in d.iterdir())
        for n in listing:
            p = d / n
            if p.is_file():
                files[n] = p.read_text(encoding="utf-8", errors="surrogateescape")
                modes[n] = p.stat().st_mode & 0o777
        rr = info.result_rep
        return Package(True, backend, query_text, files, modes, list(info.all_filenames), info.main_script,
                       getattr(rr, "treename", None), getattr(rr, "filename", None),
                       warnings=[m for (lv, nm, m) in cap.records if lv == "WARNING"], listing=listing)
    except BaseException as e:  # noqa
        if isinstance(e, (KeyboardInterrupt, SystemExit)):
            raise
        return Package(False, backend, query_text, exc_type=type(e).__name__, exc_msg=str(e),
                       warnings=[m for (lv, nm, m) in cap.records if lv == "WARNING"])
    finally:
        root.removeHandler(cap)
        root.setLevel(old_level)
        shutil.rmtree(d, ignore_errors=True)


def translate(text: str, backend: str, **kw) -> Package:
    try:
        a = parse_query(text)
    except SyntaxError as e:
        raise RuntimeError(f"harness: query text does not parse: {text!r}: {e}")
    return translate_ast(a, backend, query_text=text, **kw)


# quiet the library's own warning chatter on stderr
logging.getLogger().addHandler(logging.NullHandler())
